"""C11 - multiple input buffers: switching, pushing, popping, scanning in-memory data, flushing.

R1  save before switch, load after.  yy_switch_to_buffer, yypush_buffer_state and yypop_buffer_state: every store that
    changes the current buffer (the top-of-stack slot of yy_buffer_stack, or yy_buffer_stack_top) is preceded - on every path
    on which an old current buffer exists (null-buffer edges removed) and survives (not just deleted by this function) - by
    *yy_c_buf_p = yy_hold_char, current->yy_buf_pos = yy_c_buf_p and current->yy_n_chars = yy_n_chars; and every path from
    such a store to the return on which a buffer is current passes through yy_load_buffer_state().
    yy_delete_buffer nulls the slot when it deletes the current buffer, before freeing it.
R2  yy_scan_buffer validates before it allocates: the allocation is dominated by size >= 2, base[size-2] == 0 and
    base[size-1] == 0 (exact bounds), and each failing edge returns NULL without allocating.
R3  yy_scan_bytes scans a private copy: the buffer handed to yy_scan_buffer is the result of yyalloc in the same function,
    sized from the length parameter + 2, and yy_is_our_buffer of the returned buffer is set afterwards on every path.
R4  flush is local and complete: yy_flush_buffer(b) stores only through b; on every path with b != NULL it stores
    yy_n_chars = 0, yy_ch_buf[0] = yy_ch_buf[1] = 0, yy_buf_pos = &yy_ch_buf[0], yyatbol = 1 and
    yy_buffer_status = YY_BUFFER_NEW (the value yylex tests for); it calls yy_load_buffer_state only under b == current.
R5  yyensure_buffer_stack leaves room for the push that follows (growth test evaluated over small top/max).
R6  push only if the top slot is occupied, otherwise replace it: in yypush_buffer_state the increment of
    yy_buffer_stack_top is control dependent on the non-null edge of a test of the element
    yy_buffer_stack[yy_buffer_stack_top] (directly, through the yy_current_buffer() macro or the function of that name,
    whose body is checked) - a test of the stack pointer itself does not count.
"""
import re
import ir, flow, variants
from common import where, fwhere
import scanner_ids as S
from scanner_ids import scanner
from c05 import esig, stores_of, loads_of
from c10 import big_yylex

SWITCHERS = ('yy_switch_to_buffer', 'yypush_buffer_state', 'yypop_buffer_state')

def is_load_of_var(sc, fn, res, v, canon):
    d = fn.def_of(S.strip_ext(fn, v))
    return d is not None and d.op == 'load' and sc.is_var(res.loc(d.ops[0]), canon)

def param_slot(sc, fn, k):
    """alloca holding the k-th source-level parameter (C++: after `this`)"""
    ps = fn.params[1:] if sc.backend == 'cxx' else fn.params
    return ('local', ps[k][1] + '.addr') if k < len(ps) else None

def is_load_of_param(sc, fn, res, v, k):
    d = fn.def_of(flow.strip_casts(fn, S.strip_ext(fn, v)))
    return d is not None and d.op == 'load' and res.loc(d.ops[0]) == param_slot(sc, fn, k)

# ---------------------------------------------------------------- R1

def r1(ctx, sc):
    rep = ctx.rep; v = sc.v; n = 0
    for canon in SWITCHERS:
        f = sc.fn(canon)
        if f is None: continue
        n += 1
        cfg = sc.prog.cfg(f); res = ir.Resolver(f)
        changes = [x for x in f.ins if x.op == 'store' and (sc.slot(res.loc(x.ops[1])) or sc.is_var(res.loc(x.ops[1]), 'yy_buffer_stack_top'))]
        if not changes: rep.broken('C11.R1: %s of %s does not change the current buffer' % (canon, v.name))
        nulls = S.current_null_edges(sc, f)
        ef = lambda a, b: (a, b) not in nulls
        # does the old buffer survive?  not if this function hands the current buffer to yy_delete_buffer first
        dels = [c for c in sc.calls(f, 'yy_delete_buffer') if any(S.is_current_value(sc, f, a, res) for a in c.ops)]
        key = sc.key('C11.R1', canon, 'save')
        probs = []
        def p_hold(g, x, r): return is_load_of_var(sc, g, r, x.ops[0], 'yy_hold_char') and r.loc(x.ops[1])[0] == 'deref' and sc.is_var(r.loc(x.ops[1])[1], 'yy_c_buf_p')
        def p_pos(g, x, r): return sc.is_buf(r.loc(x.ops[1]), 'yy_buf_pos') and sc.via_current(r.loc(x.ops[1])) and is_load_of_var(sc, g, r, x.ops[0], 'yy_c_buf_p')
        def p_n(g, x, r): return sc.is_buf(r.loc(x.ops[1]), 'yy_n_chars') and sc.via_current(r.loc(x.ops[1])) and is_load_of_var(sc, g, r, x.ops[0], 'yy_n_chars')
        # (inline stores, or calls of a helper that performs them on every path)
        save_hold = S.effect_sites(sc, f, p_hold, 'save-hold')
        save_pos = S.effect_sites(sc, f, p_pos, 'save-pos')
        save_n = S.effect_sites(sc, f, p_n, 'save-n')
        for x in changes:
            deleted = any(cfg.ins_dominates(d, x) for d in dels)
            if deleted: continue
            for what, sv in (('*yy_c_buf_p = yy_hold_char', save_hold), ('current->yy_buf_pos = yy_c_buf_p', save_pos), ('current->yy_n_chars = yy_n_chars', save_n)):
                if x in S.entry_reach(cfg, f, avoid=sv, edge_filter=ef):
                    probs.append((x, what))
        if probs:
            x, what = probs[0]
            wit = cfg.path(f.entry.ins[0], lambda y: y is x, avoid={'*yy_c_buf_p = yy_hold_char': save_hold, 'current->yy_buf_pos = yy_c_buf_p': save_pos, 'current->yy_n_chars = yy_n_chars': save_n}[what], include_start=True, edge_filter=ef)
            rep.fail('C11.R1', key + ':' + what.split(' ')[0].replace('current->', '').replace('*', ''), where(x),
                     '%s makes another buffer current without first saving the scanner position of the old one (%s missing on a path where an old buffer exists): '
                     'switching back would resume at a stale position [variant %s]' % (canon, what, v.name),
                     witness=['%s:%s' % (i.blk.name, i.line) for i in (wit or [])], variant=v.describe())
        else:
            surv = [x for x in changes if not any(cfg.ins_dominates(d, x) for d in dels)]
            rep.ok('C11.R1', '%s %s: %d change(s) of the current buffer, %s' % (v.name, canon, len(changes),
                   'old buffer saved (hold char, yy_buf_pos, yy_n_chars) before each' if surv else 'old buffer deleted first, nothing to save'))
        # load after
        n += 1
        loads = sc.calls(f, 'yy_load_buffer_state')
        key = sc.key('C11.R1', canon, 'load')
        bad = None
        for x in changes:
            r_ = cfg.reach(x, avoid=loads, edge_filter=ef)
            rets = [y for y in r_ if y.op == 'ret']
            if rets: bad = (x, rets[0]); break
        if bad:
            rep.fail('C11.R1', key, where(bad[0]), '%s can return with a new current buffer without yy_load_buffer_state(): the scanner would keep reading the old buffer\'s memory [variant %s]' % (canon, v.name),
                     witness=['%s:%s' % (i.blk.name, i.line) for i in (cfg.path(bad[0], lambda y: y is bad[1], avoid=loads, edge_filter=ef) or [])], variant=v.describe())
        else:
            rep.ok('C11.R1', '%s %s: yy_load_buffer_state()@%s behind every change on paths where a buffer is current' % (v.name, canon, loads[0].line if loads else '-'))
    # yy_delete_buffer
    for f in sc.fns('yy_delete_buffer'):
        n += 1
        cfg = sc.prog.cfg(f); res = ir.Resolver(f)
        key = sc.key('C11.R1', 'yy_delete_buffer', 'null-slot')
        nullst = [x for x in f.ins if x.op == 'store' and sc.slot(res.loc(x.ops[1])) and x.ops[0] in (('null',), ('int', 0))]
        # the comparison b == current
        eqedges = []
        for b in f.blocks:
            br = b.ins[-1]
            if br.op != 'br' or not br.ops: continue
            for t in br.targets:
                con = S.edge_constraint(f, br, t)
                if con and con[0] == 'eq' and con[2] != ('null',) and con[1] != ('null',):
                    sides = (con[1], con[2])
                    if any(is_load_of_param(sc, f, res, s_, 0) for s_ in sides) and any(S.is_current_value(sc, f, s_, res) for s_ in sides):
                        eqedges.append((br, t))
        frees = [c for c in sc.calls(f, 'yyfree') if any(is_load_of_param(sc, f, res, a, 0) for a in c.ops)]
        if not eqedges or not frees:
            rep.broken('C11.R1: yy_delete_buffer of %s: comparison with the current buffer / yyfree(b) not found' % v.name)
        bad = [c for br, t in eqedges for c in frees if c in cfg.reach_from_block(f.bmap[t], avoid=nullst)]
        if bad or not nullst:
            rep.fail('C11.R1', key, where(bad[0] if bad else eqedges[0][0]), 'yy_delete_buffer frees the current buffer without clearing the top-of-stack slot: yy_current_buffer() would return freed memory [variant %s]' % v.name, variant=v.describe())
        else:
            rep.ok('C11.R1', '%s yy_delete_buffer: slot = NULL@%s before yyfree(b) when b is current' % (v.name, nullst[0].line))
    return n

# ---------------------------------------------------------------- R2

def r2(ctx, sc):
    rep = ctx.rep; v = sc.v
    f = sc.fn('yy_scan_buffer')
    if f is None: return 0
    cfg = sc.prog.cfg(f); res = ir.Resolver(f)
    allocs = sc.calls(f, 'yyalloc')
    if len(allocs) != 1: rep.broken('C11.R2: yy_scan_buffer of %s has %d yyalloc calls' % (v.name, len(allocs)))
    A = allocs[0]
    is_size = lambda val: is_load_of_param(sc, f, res, val, 1)
    found = {'size>=2': None, 'base[size-2]==0': None, 'base[size-1]==0': None}
    details = {}
    for b in f.blocks:
        br = b.ins[-1]
        if br.op != 'br' or not br.ops or not cfg.dominates(b, A.blk) or b is A.blk: continue
        tos = [t for t in br.targets if A in cfg.reach_from_block(f.bmap[t], avoid=[br])]
        if len(tos) != 1: continue
        t = tos[0]; other = [u for u in br.targets if u != t][0]
        con = S.edge_constraint(f, br, t)
        if con is None: continue
        lb = S.lower_bound(f, con, is_size)
        what = None
        if lb is not None:
            what = 'size>=2'; exact = (lb == 2); details[what] = 'size >= %d' % lb
        else:
            # base[size - k] == 0
            for side, oth in ((con[1], con[2]), (con[2], con[1])):
                d = f.def_of(S.strip_ext(f, side))
                if d is None or d.op != 'load' or oth != ('int', 0): continue
                g = f.def_of(d.ops[0])
                if g is None or g.op != 'getelementptr' or not is_load_of_param(sc, f, res, g.ops[0], 0): continue
                af = S.affine(f, g.ops[-1], is_size)
                if af is None: continue
                if af[1] in (-2, -1):
                    what = 'base[size-%d]==0' % -af[1]; exact = (con[0] == 'eq'); details[what] = 'base[size%+d] %s 0' % (af[1], con[0])
        if what is None: continue
        # failing edge: returns NULL, never allocates
        fr = cfg.reach_from_block(f.bmap[other], avoid=[br])
        fail_ok = A not in fr and any(y.op == 'store' and y.ops[1] == ('reg', 'retval') and y.ops[0] == ('null',) for y in fr) \
                  and not any(y.op == 'store' and y.ops[1] == ('reg', 'retval') and y.ops[0] != ('null',) for y in fr)
        found[what] = (br, exact, fail_ok)
    n = 0
    for what, r_ in found.items():
        n += 1
        key = sc.key('C11.R2', 'yy_scan_buffer', what)
        if r_ is None:
            rep.fail('C11.R2', key, where(A), 'yy_scan_buffer allocates the buffer object without first checking %s [variant %s]' % (what, v.name), variant=v.describe())
        elif not r_[1]:
            rep.fail('C11.R2', key, where(r_[0]), 'yy_scan_buffer: the test before the allocation gives "%s", not %s [variant %s]' % (details[what], what, v.name), variant=v.describe())
        elif not r_[2]:
            rep.fail('C11.R2', key, where(r_[0]), 'yy_scan_buffer: the failing edge of the %s test does not return NULL without allocating [variant %s]' % (what, v.name), variant=v.describe())
        else:
            rep.ok('C11.R2', '%s yy_scan_buffer: %s tested@%s before yyalloc@%s, failing edge returns NULL' % (v.name, what, r_[0].line, A.line))
    return n

# ---------------------------------------------------------------- R3

def r3(ctx, sc):
    rep = ctx.rep; v = sc.v
    f = sc.fn('yy_scan_bytes')
    if f is None: return 0
    cfg = sc.prog.cfg(f); res = ir.Resolver(f)
    key = sc.key('C11.R3', 'yy_scan_bytes', 'private-copy')
    sb = sc.calls(f, 'yy_scan_buffer'); al = sc.calls(f, 'yyalloc')
    if len(sb) != 1 or len(al) != 1: rep.broken('C11.R3: yy_scan_bytes of %s: %d yy_scan_buffer / %d yyalloc calls' % (v.name, len(sb), len(al)))
    sb, al = sb[0], al[0]
    # value chain: local <- yyalloc result ; yy_scan_buffer(load local, ...)
    arg = f.def_of(flow.strip_casts(f, sb.ops[0]))
    holder = arg.ops[0] if arg is not None and arg.op == 'load' else None
    sts = [x for x in f.ins if x.op == 'store' and x.ops[1] == holder] if holder else []
    from_alloc = [x for x in sts if flow.strip_casts(f, x.ops[0]) == ('reg', al.res)]
    probs = []
    if holder is None or f.def_of(holder) is None or f.def_of(holder).op != 'alloca' or len(sts) != 1 or not from_alloc or not cfg.ins_dominates(al, sb):
        probs.append((sb, 'the memory handed to yy_scan_buffer is not the block this function obtained from yyalloc (the caller\'s bytes would be scanned and modified in place)'))
    # size of the copy: length parameter + 2
    sl = S.deep_slice(f, al.ops[0])
    lenp = param_slot(sc, f, 1)
    if not any(y.op == 'load' and res.loc(y.ops[0]) == lenp for y in sl) or not any(y.op == 'add' and ('int', 2) in y.ops for y in sl):
        probs.append((al, 'the copy is not sized length + 2 (room for the two end-of-buffer bytes)'))
    # bytes are copied from the parameter
    src = param_slot(sc, f, 0)
    copied = False
    for x in f.ins:
        if x.op == 'store' and res.loc(x.ops[1])[0] == 'elem' and res.loc(x.ops[1])[1] == ('deref', res.loc(holder) if holder else None):
            d = f.def_of(S.strip_ext(f, x.ops[0]))
            if d is not None and d.op == 'load' and res.loc(d.ops[0])[0] == 'elem' and res.loc(d.ops[0])[1] == ('deref', src): copied = True
    if not copied and not any(c.op == 'call' and c.callee in ('memcpy', 'llvm.memcpy.p0i8.p0i8.i64') for c in f.ins):
        probs.append((al, 'the caller\'s bytes are not copied into the new block'))
    # yy_is_our_buffer = 1 on the returned buffer, on every path to the return
    own = [x for x in f.ins if x.op == 'store' and sc.is_buf(res.loc(x.ops[1]), 'yy_is_our_buffer') and x.ops[0][0] == 'int' and x.ops[0][1] != 0]
    def through_result(x):
        l = res.loc(x.ops[1])
        base = l[3]
        if base[0] != 'deref': return False
        return any(y.op == 'store' and res.loc(y.ops[1]) == base[1] and flow.strip_casts(f, y.ops[0]) == ('reg', sb.res) for y in f.ins)
    own = [x for x in own if through_result(x)]
    if not own or any(y.op == 'ret' for y in cfg.reach(sb, avoid=own)):
        probs.append((sb, 'yy_is_our_buffer of the new buffer is not set after yy_scan_buffer: the private copy would never be freed'))
    if probs: rep.fail('C11.R3', key, where(probs[0][0]), 'yy_scan_bytes: %s [variant %s]' % (probs[0][1], v.name), variant=v.describe())
    else: rep.ok('C11.R3', '%s yy_scan_bytes: yyalloc(len+2)@%s -> copy -> yy_scan_buffer@%s -> yy_is_our_buffer = 1@%s' % (v.name, al.line, sb.line, own[0].line))
    return 1

# ---------------------------------------------------------------- R4

def buffer_new_constant(sc):
    """YY_BUFFER_NEW as the scanner reads it: the constant yylex compares yy_buffer_status with"""
    f = big_yylex(sc)
    if f is None: return None
    res = ir.Resolver(f)
    for x in f.ins:
        if x.op == 'icmp' and x.pred in ('eq', 'ne'):
            for val, k in ((x.ops[0], x.ops[1]), (x.ops[1], x.ops[0])):
                d = f.def_of(S.strip_ext(f, val)) if k[0] == 'int' else None
                if d is not None and d.op == 'load' and sc.is_buf(res.loc(d.ops[0]), 'yy_buffer_status'): return k[1]
    return None

def r4(ctx, sc):
    rep = ctx.rep; v = sc.v; n = 0
    NEW = buffer_new_constant(sc)
    for f in sc.fns('yy_flush_buffer'):
        cfg = sc.prog.cfg(f); res = ir.Resolver(f)
        bslot = param_slot(sc, f, 0)
        if NEW is None: rep.broken('C11.R4: YY_BUFFER_NEW not found in yylex of %s' % v.name)
        nulls = set()
        for b in f.blocks:
            bn = flow.branch_on_null(f, b.ins[-1]) if b.ins[-1].op == 'br' else None
            if bn is None: continue
            d = f.def_of(flow.strip_casts(f, bn[0]))
            if d is not None and d.op == 'load' and res.loc(d.ops[0]) == bslot: nulls.add((b, f.bmap[bn[1]]))
        ef = lambda a, b: (a, b) not in nulls
        # locality
        n += 1
        foreign = []
        for x in f.ins:
            if x.op != 'store': continue
            l = res.loc(x.ops[1])
            root = ir.root_of(l)
            if l[0] == 'local': continue
            if root == bslot and l != bslot: continue
            foreign.append(x)
        if foreign:
            rep.fail('C11.R4', sc.key('C11.R4', 'yy_flush_buffer', 'local'), where(foreign[0]), 'yy_flush_buffer stores to %s, which is not part of the buffer it was given [variant %s]' % (ir.loc_str(res.loc(foreign[0].ops[1])), v.name), variant=v.describe())
        else:
            rep.ok('C11.R4', '%s yy_flush_buffer: every store goes through the parameter b' % v.name)
        def thru_b(l):
            return l[0] == 'field' and l[1] == 'yy_buffer_state' and l[3] == ('deref', bslot)
        def chbuf_elem(x, k):
            """x stores 0 into b->yy_ch_buf[k]"""
            if x.ops[0] != ('int', 0): return False
            g = f.def_of(x.ops[1])
            if g is None or g.op != 'getelementptr' or g.ops[-1] != ('int', k): return False
            d = f.def_of(g.ops[0])
            return d is not None and d.op == 'load' and sc.is_buf(res.loc(d.ops[0]), 'yy_ch_buf') and thru_b(res.loc(d.ops[0]))
        def pos_value(x):
            g = f.def_of(x.ops[0])
            if g is None or g.op != 'getelementptr' or g.ops[-1] != ('int', 0): return False
            d = f.def_of(g.ops[0])
            return d is not None and d.op == 'load' and sc.is_buf(res.loc(d.ops[0]), 'yy_ch_buf') and thru_b(res.loc(d.ops[0]))
        st = [x for x in f.ins if x.op == 'store']
        obligations = [
            ('yy_n_chars=0', [x for x in st if sc.is_buf(res.loc(x.ops[1]), 'yy_n_chars') and thru_b(res.loc(x.ops[1])) and x.ops[0] == ('int', 0)]),
            ('yy_ch_buf[0]=EOB', [x for x in st if chbuf_elem(x, 0)]),
            ('yy_ch_buf[1]=EOB', [x for x in st if chbuf_elem(x, 1)]),
            ('yy_buf_pos=&yy_ch_buf[0]', [x for x in st if sc.is_buf(res.loc(x.ops[1]), 'yy_buf_pos') and thru_b(res.loc(x.ops[1])) and pos_value(x)]),
            ('yyatbol=1', [x for x in st if sc.is_buf(res.loc(x.ops[1]), 'yyatbol') and thru_b(res.loc(x.ops[1])) and x.ops[0][0] == 'int' and x.ops[0][1] != 0]),
            ('yy_buffer_status=YY_BUFFER_NEW', [x for x in st if sc.is_buf(res.loc(x.ops[1]), 'yy_buffer_status') and thru_b(res.loc(x.ops[1])) and x.ops[0] == ('int', NEW)]),
        ]
        for what, sts in obligations:
            n += 1
            key = sc.key('C11.R4', 'yy_flush_buffer', what.split('=')[0])
            if not sts or any(y.op == 'ret' for y in S.entry_reach(cfg, f, avoid=sts, edge_filter=ef)):
                rep.fail('C11.R4', key, fwhere(f), 'yy_flush_buffer(b) can return for a non-null b without storing b->%s: %s [variant %s]' % (what, {
                    'yy_n_chars=0': 'discarded characters would be scanned again',
                    'yy_ch_buf[0]=EOB': 'the scanner would not see an end-of-buffer sentinel and run into stale data',
                    'yy_ch_buf[1]=EOB': 'the second sentinel (jam in the end-of-buffer state) would be missing',
                    'yy_buf_pos=&yy_ch_buf[0]': 'scanning would resume in the middle of discarded data',
                    'yyatbol=1': 'a new source would not start at the beginning of a line',
                    'yy_buffer_status=YY_BUFFER_NEW': 'the next refill would not treat the buffer as a new source'}[what], v.name), variant=v.describe())
            else:
                rep.ok('C11.R4', '%s yy_flush_buffer: b->%s@%s on every path with b != NULL' % (v.name, what, sts[0].line))
        # the reload copies the fields into the scanner registers: every field store comes first
        n += 1
        key = sc.key('C11.R4', 'yy_flush_buffer', 'stores-before-reload')
        lds0 = sc.calls(f, 'yy_load_buffer_state')
        late = [x for c in lds0 for x in cfg.reach(c) if x.op == 'store' and any(x in sts for _, sts in obligations)]
        if late:
            what = next(w for w, sts in obligations if late[0] in sts)
            rep.fail('C11.R4', key, where(late[0]), 'yy_flush_buffer stores b->%s after it has reloaded the scanner registers from b: flushing the current buffer leaves the registers with the value from before the flush '
                     '(e.g. the stale scan position of a buffer that was switched away from and back) [variant %s]' % (what, v.name), variant=v.describe())
        else:
            rep.ok('C11.R4', '%s yy_flush_buffer: all field stores precede the reload of the scanner registers' % v.name)
        # load only under b == current
        n += 1
        key = sc.key('C11.R4', 'yy_flush_buffer', 'load-if-current')
        c0 = sc.prog.cfg(f, cut=False)
        lds = sc.calls(f, 'yy_load_buffer_state')
        okl = bool(lds)
        for c in lds:
            good = False
            for br, t in c0.control_deps(c.blk):
                con = S.edge_constraint(f, br, t.name)
                if con and con[0] == 'eq' and any(is_load_of_param(sc, f, res, s_, 0) for s_ in (con[1], con[2])) and any(S.is_current_value(sc, f, s_, res) for s_ in (con[1], con[2])): good = True
            okl = okl and good
        # and on the b == current edge the load is not skipped
        if okl:
            for c in lds:
                for br, t in c0.control_deps(c.blk):
                    if any(y.op == 'ret' for y in cfg.reach_from_block(f.bmap[t.name] if isinstance(t, str) else t, avoid=lds)): okl = False
        if okl: rep.ok('C11.R4', '%s yy_flush_buffer: yy_load_buffer_state()@%s exactly when b is the current buffer' % (v.name, lds[0].line))
        else: rep.fail('C11.R4', key, where(lds[0]) if lds else fwhere(f), 'yy_flush_buffer does not reload the scanner registers exactly when the flushed buffer is the current one [variant %s]' % v.name, variant=v.describe())
    return n

# ---------------------------------------------------------------- driver

# ---------------------------------------------------------------- R5

def _eval_slice(fn, v, env, res, sc, depth=0):
    """concrete value (unsigned 64-bit arithmetic) of the register/constant v, with loads of named scanner variables taken from env"""
    M = 1 << 64
    if v[0] == 'int': return v[1] % M
    if v[0] != 'reg' or depth > 30: return None
    d = fn.def_of(v)
    if d is None: return None
    if d.op == 'load':
        l = res.loc(d.ops[0])
        for canon, val in env.items():
            if sc.is_var(l, canon): return val % M
        return None
    if d.op in ('zext', 'sext', 'trunc', 'bitcast'): return _eval_slice(fn, d.ops[0], env, res, sc, depth + 1)
    if d.op in ('add', 'sub', 'mul'):
        a = _eval_slice(fn, d.ops[0], env, res, sc, depth + 1); b = _eval_slice(fn, d.ops[1], env, res, sc, depth + 1)
        if a is None or b is None: return None
        return {'add': a + b, 'sub': a - b, 'mul': a * b}[d.op] % M
    if d.op == 'icmp':
        a = _eval_slice(fn, d.ops[0], env, res, sc, depth + 1); b = _eval_slice(fn, d.ops[1], env, res, sc, depth + 1)
        if a is None or b is None: return None
        sa = a - M if a >= M // 2 else a; sb = b - M if b >= M // 2 else b
        return int({'eq': a == b, 'ne': a != b, 'ugt': a > b, 'uge': a >= b, 'ult': a < b, 'ule': a <= b,
                    'sgt': sa > sb, 'sge': sa >= sb, 'slt': sa < sb, 'sle': sa <= sb}[d.pred])
    return None

def r5(ctx, sc):
    """R5: yyensure_buffer_stack() leaves room for one push.  Its growth test is evaluated for every (top, max) with
    0 <= top < max <= 12: whenever the test sends control past the reallocation, top + 1 < max must hold, because
    yypush_buffer_state() increments yy_buffer_stack_top and stores the new buffer at that index straight afterwards."""
    rep = ctx.rep; v = sc.v
    f = sc.fn('yyensure_buffer_stack')
    if f is None: return 0
    res = ir.Resolver(f); cfg = sc.prog.cfg(f)
    grows = sc.calls(f, 'yyrealloc')
    if not grows: rep.broken('C11.R5: yyensure_buffer_stack of %s never reallocates the stack' % v.name)
    tests = []
    for b in f.blocks:
        br = b.ins[-1]
        if br.op != 'br' or not br.ops: continue
        names = set()
        for d in flow.value_slice(f, br.ops[0]):
            if d.op == 'load':
                for canon in ('yy_buffer_stack_top', 'yy_buffer_stack_max'):
                    if sc.is_var(res.loc(d.ops[0]), canon): names.add(canon)
        if names == {'yy_buffer_stack_top', 'yy_buffer_stack_max'}: tests.append(br)
    key = sc.key('C11.R5', 'yyensure_buffer_stack', 'room-for-one-push')
    if len(tests) != 1:
        rep.broken('C11.R5: %d branches of yyensure_buffer_stack in %s compare yy_buffer_stack_top with yy_buffer_stack_max (1 expected)' % (len(tests), v.name))
    br = tests[0]
    # which target avoids the reallocation?
    side = []
    for k, t in enumerate(br.targets):
        blk = f.bmap[t]
        reach = cfg.reach_from_block(blk)
        side.append(any(x in grows for x in reach) or any(x in grows for x in blk.ins))
    if side[0] == side[1]: rep.broken('C11.R5: cannot tell the growing side of the capacity test in %s' % v.name)
    bad = None; n_eval = 0
    for mx in range(1, 13):
        for top in range(0, mx):
            c = _eval_slice(f, br.ops[0], {'yy_buffer_stack_top': top, 'yy_buffer_stack_max': mx}, res, sc)
            if c is None: rep.broken('C11.R5: capacity test of yyensure_buffer_stack in %s is not a function of top and max only' % v.name)
            n_eval += 1
            grows_here = side[0] if c else side[1]
            if not grows_here and not top + 1 < mx and bad is None: bad = (top, mx)
    if bad:
        rep.fail('C11.R5', key, where(br), 'yyensure_buffer_stack does not grow the stack for yy_buffer_stack_top = %d, yy_buffer_stack_max = %d, but the push that follows stores '
                 'the new buffer at index %d: one slot past the end of the array [variant %s]' % (bad[0], bad[1], bad[0] + 1, v.name), variant=v.describe(),
                 replay_input='nest yypush_buffer_state() calls (ASan reports the first push past the end)')
    else:
        rep.ok('C11.R5', '%s yyensure_buffer_stack: the growth test leaves top + 1 < max on the no-growth side (%d evaluations)' % (v.name, n_eval))
    return 1

# ---------------------------------------------------------------- R6

def _is_top_load(sc, fn, res, v):
    return is_load_of_var(sc, fn, res, v, 'yy_buffer_stack_top')

def top_slot_loads(sc, fn, res, v, deep=False):
    """loads of yy_buffer_stack[yy_buffer_stack_top] (index = the top register itself) in the slice of value v"""
    out = []
    for d in (S.deep_slice(fn, v) if deep else flow.value_slice(fn, flow.strip_casts(fn, v))):
        if d.op != 'load' or not sc.slot(res.loc(d.ops[0])): continue
        g = fn.def_of(d.ops[0])
        af = S.affine(fn, g.ops[-1], lambda val: _is_top_load(sc, fn, res, val)) if g is not None and g.op == 'getelementptr' else None
        if af is not None and af[1] == 0: out.append(d)
    return out

def returns_top_slot(sc, g):
    """helper g (yy_current_buffer) returns the element yy_buffer_stack[yy_buffer_stack_top], or NULL, on every path"""
    res = ir.Resolver(g); seen = 0
    vals = [x.ops[0] for x in g.ins if x.op == 'ret' and x.ops]
    for v in vals:
        ok = False
        for d in S.deep_slice(g, v):
            if d.op == 'load' and top_slot_loads(sc, g, res, ('reg', d.res)): ok = True
        if v == ('null',): ok = True
        if not ok: return False
        seen += 1
    return seen > 0

def r6(ctx, sc):
    """R6: "only push if top exists, otherwise replace top".  In yypush_buffer_state every increment of yy_buffer_stack_top is
    control dependent on the non-null edge of a test of the CURRENT TOP SLOT - the element yy_buffer_stack[yy_buffer_stack_top],
    loaded directly, through the yy_current_buffer() macro, or returned by the yy_current_buffer() function (whose body is
    checked).  A test of the stack pointer itself does not count: it is non-null whenever yyensure_buffer_stack() has run, so a
    push onto an empty top slot (after yy_delete_buffer(YY_CURRENT_BUFFER), or before the first yylex) would stack the new
    buffer above the hole and the matching pop would uncover a NULL current buffer."""
    rep = ctx.rep; v = sc.v
    f = sc.fn('yypush_buffer_state')
    if f is None: return 0
    res = ir.Resolver(f); c0 = sc.prog.cfg(f, cut=False)
    incs = []
    for x in stores_of(sc, f, 'yy_buffer_stack_top'):
        af = S.affine(f, x.ops[0], lambda val: _is_top_load(sc, f, res, val))
        if af is not None and af[1] > 0: incs.append(x)
    if not incs: rep.broken('C11.R6: yypush_buffer_state of %s never increments yy_buffer_stack_top' % v.name)
    key = sc.key('C11.R6', 'yypush_buffer_state', 'push-guard-tests-top-slot')
    n = 0
    for x in incs:
        n += 1
        good = None; other = None
        for br, t in c0.control_deps_closure(x.blk):
            bn = flow.branch_on_null(f, br) if br.op == 'br' else None
            if bn is None: continue
            if t.name != bn[2]: other = other or br; continue    # the increment is on the null side of this test
            p = flow.strip_casts(f, bn[0])
            d = f.def_of(p)
            if top_slot_loads(sc, f, res, p): good = br; break
            if d is not None and d.op in ('call', 'invoke') and sc.callee(d) == 'yy_current_buffer' and all(returns_top_slot(sc, g) for g in sc.fns('yy_current_buffer')) and sc.fns('yy_current_buffer'):
                good = br; break
            other = other or br                                  # (the nearest one is named in the report)
        if good is not None:
            rep.ok('C11.R6', '%s yypush_buffer_state: ++yy_buffer_stack_top@%s only on the non-null edge of the test of the top slot @%s' % (v.name, x.line, good.line))
        else:
            what = 'no null test at all'
            if other is not None:
                ls = [ir.loc_str(l) for d, l in flow.cond_loads(f, other, res)]
                what = 'a test of %s' % (', '.join(ls) or 'something else')
            rep.fail('C11.R6', key, where(x), 'yypush_buffer_state increments yy_buffer_stack_top under %s, not under a test that the current top slot '
                     'yy_buffer_stack[yy_buffer_stack_top] is occupied: pushing while the top slot is empty (after yy_delete_buffer(YY_CURRENT_BUFFER), or before the first '
                     'yylex()) stacks the new buffer above the hole; the matching yypop_buffer_state() then leaves no current buffer and the input of the buffers below is lost '
                     '[variant %s]' % (what, v.name), variant=v.describe(),
                     replay_input='in an action: yy_delete_buffer(YY_CURRENT_BUFFER); yypush_buffer_state(yy_create_buffer(f, YY_BUF_SIZE)); ... <<EOF>> { yypop_buffer_state(); if (!YY_CURRENT_BUFFER) yyterminate(); } '
                                  '-- with an including file below, its remaining input must still be scanned after the pop')
    return n

# ---------------------------------------------------------------- driver

def run(ctx):
    rep = ctx.rep
    vs = ctx.variants()
    rep.require(len(vs) >= 100, 'only %d scanner variants compiled to IR' % len(vs))
    backs = set(); backs6 = set(); c_scan = 0
    for v in vs:
        sc = scanner(v)
        if r1(ctx, sc): backs.add(v.backend)
        if r2(ctx, sc): c_scan += 1
        r3(ctx, sc)
        r4(ctx, sc)
        r5(ctx, sc)
        if r6(ctx, sc): backs6.add(v.backend)
    rep.require(backs6 >= {'nr', 'r', 'cxx', 'c99', 'go'}, 'C11.R6 ran only on back ends %s' % sorted(backs6))
    rep.require(backs >= {'nr', 'r', 'cxx', 'c99', 'go'}, 'C11.R1 ran only on back ends %s' % sorted(backs))
    rep.setcount('variants_analysed', len(vs))
    rep.setcount('variants_with_yy_scan_buffer', c_scan)
    rep.floor('C11.R1', 800, 'save+load for three functions and the slot reset of yy_delete_buffer in >=110 variants')
    rep.floor('C11.R2', 270, 'three tests in yy_scan_buffer of >=90 C variants')
    rep.floor('C11.R3', 90, 'yy_scan_bytes of >=90 C variants')
    rep.floor('C11.R5', 100, 'yyensure_buffer_stack of >=100 variants')
    rep.floor('C11.R6', 100, 'the one increment of yy_buffer_stack_top in yypush_buffer_state of >=100 variants')
    rep.floor('C11.R4', 850, 'locality + 6 stores + conditional reload in yy_flush_buffer of >=110 variants')
    rep.undecided += ['no loss, duplication or reordering of input across arbitrary histories of switches (value-level)',
                      'that user code does not keep pointers into a buffer across a switch',
                      'yyrestart on the current buffer discards its contents by design (flush), nothing is saved',
                      'bounds of yy_buffer_stack (C13)']
    rep.assumptions += ['clang -O0 IR of the instantiated skeleton is a faithful rendering of the generated source',
                        'C++ has no yy_scan_buffer/yy_scan_bytes; R2/R3 run on the C back ends only',
                        '"an old buffer exists" is approximated by removing the CFG edges on which a null test of the current buffer succeeds']
    return rep.finish('other',
        'Ordering/pairing analysis on the LLVM IR of %d scanner variants: for every store that changes the current buffer in the three switching functions, '
        'must-pass-through of the three save stores (identified by value shape: register loaded, field of the buffer reached through the top-of-stack slot) on the CFG '
        'with null-buffer edges removed, and must-pass-through of yy_load_buffer_state() towards the return; dominating relational guards of the allocation in '
        'yy_scan_buffer with exact bounds; provenance of the scanned block in yy_scan_bytes; store census and must-store set of yy_flush_buffer.' % len(vs))
