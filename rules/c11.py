"""C11 - multiple input buffers: switching, pushing, popping, scanning in-memory data, flushing.

R1  save before switch, load after.  yy_switch_to_buffer, yypush_buffer_state and yypop_buffer_state: every store that
    changes the current buffer (the top-of-stack slot of yy_buffer_stack, or yy_buffer_stack_top) is preceded - on every path
    on which an old current buffer exists (null-buffer edges removed) and survives (not just deleted by this function) - by
    *yy_c_buf_p = yy_hold_char, current->yy_buf_pos = yy_c_buf_p and current->yy_n_chars = yy_n_chars; and every path from
    such a store to the return on which a buffer is current passes through yy_load_buffer_state().
    yy_delete_buffer nulls the slot when it deletes the current buffer, before freeing it.
R2  yy_scan_buffer validates before it allocates: the allocation is dominated by size >= 2, base[size-2] == 0 and
    base[size-1] == 0 (exact bounds), and each failing edge returns NULL without allocating.
R3  yy_scan_bytes scans a private copy: the buffer handed to yy_scan_buffer is the result of yyalloc in the same function,
    sized from the length parameter + 2, and yy_is_our_buffer of the returned buffer is set afterwards on every path.
R4  flush is local and complete: yy_flush_buffer(b) stores only through b; on every path with b != NULL it stores
    yy_n_chars = 0, yy_ch_buf[0] = yy_ch_buf[1] = 0, yy_buf_pos = &yy_ch_buf[0], yyatbol = 1 and
    yy_buffer_status = YY_BUFFER_NEW (the value yylex tests for); it calls yy_load_buffer_state only under b == current.
R5  yyensure_buffer_stack leaves room for the push that follows (growth test evaluated over small top/max).
R6  push only if the top slot is occupied, otherwise replace it: in yypush_buffer_state the increment of
    yy_buffer_stack_top is control dependent on the non-null edge of a test of the element
    yy_buffer_stack[yy_buffer_stack_top] (directly, through the yy_current_buffer() macro or the function of that name,
    whose body is checked) - a test of the stack pointer itself does not count.
R7  a new buffer object is completely initialised: on every evaluated path from the allocation of a struct yy_buffer_state
    in yy_create_buffer / yy_scan_buffer to the return of that block - callees that receive it are entered - every field
    the scanner reads anywhere has been stored; a comparison of the fresh block with another pointer is "different".
R8  yy_buffer_stack is not indexed before it exists: outside the scan context (yylex and what only it calls, the action-only
    API) an element access is reachable from the function entry only through yyensure_buffer_stack() (or a function that
    always calls it) or an edge on which the stack / the current buffer tested non-null; unprotected internal functions
    hand the obligation to their callers.
"""
import re
import ir, flow, variants
from common import where, fwhere
import scanner_ids as S
from scanner_ids import scanner
from c05 import esig, stores_of, loads_of
from c10 import big_yylex

SWITCHERS = ('yy_switch_to_buffer', 'yypush_buffer_state', 'yypop_buffer_state')

def is_load_of_var(sc, fn, res, v, canon):
    d = fn.def_of(S.strip_ext(fn, v))
    return d is not None and d.op == 'load' and sc.is_var(res.loc(d.ops[0]), canon)

def param_slot(sc, fn, k):
    """alloca holding the k-th source-level parameter (C++: after `this`)"""
    ps = fn.params[1:] if sc.backend == 'cxx' else fn.params
    return ('local', ps[k][1] + '.addr') if k < len(ps) else None

def is_load_of_param(sc, fn, res, v, k):
    d = fn.def_of(flow.strip_casts(fn, S.strip_ext(fn, v)))
    return d is not None and d.op == 'load' and res.loc(d.ops[0]) == param_slot(sc, fn, k)

# ---------------------------------------------------------------- R1

def r1(ctx, sc):
    rep = ctx.rep; v = sc.v; n = 0
    for canon in SWITCHERS:
        f = sc.fn(canon)
        if f is None: continue
        n += 1
        cfg = sc.prog.cfg(f); res = ir.Resolver(f)
        changes = [x for x in f.ins if x.op == 'store' and (sc.slot(res.loc(x.ops[1])) or sc.is_var(res.loc(x.ops[1]), 'yy_buffer_stack_top'))]
        if not changes: rep.broken('C11.R1: %s of %s does not change the current buffer' % (canon, v.name))
        nulls = S.current_null_edges(sc, f)
        ef = lambda a, b: (a, b) not in nulls
        # does the old buffer survive?  not if this function hands the current buffer to yy_delete_buffer first
        dels = [c for c in sc.calls(f, 'yy_delete_buffer') if any(S.is_current_value(sc, f, a, res) for a in c.ops)]
        key = sc.key('C11.R1', canon, 'save')
        probs = []
        def p_hold(g, x, r): return is_load_of_var(sc, g, r, x.ops[0], 'yy_hold_char') and r.loc(x.ops[1])[0] == 'deref' and sc.is_var(r.loc(x.ops[1])[1], 'yy_c_buf_p')
        def p_pos(g, x, r): return sc.is_buf(r.loc(x.ops[1]), 'yy_buf_pos') and sc.via_current(r.loc(x.ops[1])) and is_load_of_var(sc, g, r, x.ops[0], 'yy_c_buf_p')
        def p_n(g, x, r): return sc.is_buf(r.loc(x.ops[1]), 'yy_n_chars') and sc.via_current(r.loc(x.ops[1])) and is_load_of_var(sc, g, r, x.ops[0], 'yy_n_chars')
        # (inline stores, or calls of a helper that performs them on every path)
        save_hold = S.effect_sites(sc, f, p_hold, 'save-hold')
        save_pos = S.effect_sites(sc, f, p_pos, 'save-pos')
        save_n = S.effect_sites(sc, f, p_n, 'save-n')
        for x in changes:
            deleted = any(cfg.ins_dominates(d, x) for d in dels)
            if deleted: continue
            for what, sv in (('*yy_c_buf_p = yy_hold_char', save_hold), ('current->yy_buf_pos = yy_c_buf_p', save_pos), ('current->yy_n_chars = yy_n_chars', save_n)):
                if x in S.entry_reach(cfg, f, avoid=sv, edge_filter=ef):
                    probs.append((x, what))
        if probs:
            x, what = probs[0]
            wit = cfg.path(f.entry.ins[0], lambda y: y is x, avoid={'*yy_c_buf_p = yy_hold_char': save_hold, 'current->yy_buf_pos = yy_c_buf_p': save_pos, 'current->yy_n_chars = yy_n_chars': save_n}[what], include_start=True, edge_filter=ef)
            rep.fail('C11.R1', key + ':' + what.split(' ')[0].replace('current->', '').replace('*', ''), where(x),
                     '%s makes another buffer current without first saving the scanner position of the old one (%s missing on a path where an old buffer exists): '
                     'switching back would resume at a stale position [variant %s]' % (canon, what, v.name),
                     witness=['%s:%s' % (i.blk.name, i.line) for i in (wit or [])], variant=v.describe())
        else:
            surv = [x for x in changes if not any(cfg.ins_dominates(d, x) for d in dels)]
            rep.ok('C11.R1', '%s %s: %d change(s) of the current buffer, %s' % (v.name, canon, len(changes),
                   'old buffer saved (hold char, yy_buf_pos, yy_n_chars) before each' if surv else 'old buffer deleted first, nothing to save'))
        # load after
        n += 1
        loads = sc.calls(f, 'yy_load_buffer_state')
        key = sc.key('C11.R1', canon, 'load')
        bad = None
        for x in changes:
            r_ = cfg.reach(x, avoid=loads, edge_filter=ef)
            rets = [y for y in r_ if y.op == 'ret']
            if rets: bad = (x, rets[0]); break
        if bad:
            rep.fail('C11.R1', key, where(bad[0]), '%s can return with a new current buffer without yy_load_buffer_state(): the scanner would keep reading the old buffer\'s memory [variant %s]' % (canon, v.name),
                     witness=['%s:%s' % (i.blk.name, i.line) for i in (cfg.path(bad[0], lambda y: y is bad[1], avoid=loads, edge_filter=ef) or [])], variant=v.describe())
        else:
            rep.ok('C11.R1', '%s %s: yy_load_buffer_state()@%s behind every change on paths where a buffer is current' % (v.name, canon, loads[0].line if loads else '-'))
    # yy_delete_buffer
    for f in sc.fns('yy_delete_buffer'):
        n += 1
        cfg = sc.prog.cfg(f); res = ir.Resolver(f)
        key = sc.key('C11.R1', 'yy_delete_buffer', 'null-slot')
        nullst = [x for x in f.ins if x.op == 'store' and sc.slot(res.loc(x.ops[1])) and x.ops[0] in (('null',), ('int', 0))]
        # the comparison b == current
        eqedges = []
        for b in f.blocks:
            br = b.ins[-1]
            if br.op != 'br' or not br.ops: continue
            for t in br.targets:
                con = S.edge_constraint(f, br, t)
                if con and con[0] == 'eq' and con[2] != ('null',) and con[1] != ('null',):
                    sides = (con[1], con[2])
                    if any(is_load_of_param(sc, f, res, s_, 0) for s_ in sides) and any(S.is_current_value(sc, f, s_, res) for s_ in sides):
                        eqedges.append((br, t))
        frees = [c for c in sc.calls(f, 'yyfree') if any(is_load_of_param(sc, f, res, a, 0) for a in c.ops)]
        if not eqedges or not frees:
            rep.broken('C11.R1: yy_delete_buffer of %s: comparison with the current buffer / yyfree(b) not found' % v.name)
        bad = [c for br, t in eqedges for c in frees if c in cfg.reach_from_block(f.bmap[t], avoid=nullst)]
        if bad or not nullst:
            rep.fail('C11.R1', key, where(bad[0] if bad else eqedges[0][0]), 'yy_delete_buffer frees the current buffer without clearing the top-of-stack slot: yy_current_buffer() would return freed memory [variant %s]' % v.name, variant=v.describe())
        else:
            rep.ok('C11.R1', '%s yy_delete_buffer: slot = NULL@%s before yyfree(b) when b is current' % (v.name, nullst[0].line))
    return n

# ---------------------------------------------------------------- R2

def r2(ctx, sc):
    rep = ctx.rep; v = sc.v
    f = sc.fn('yy_scan_buffer')
    if f is None: return 0
    cfg = sc.prog.cfg(f); res = ir.Resolver(f)
    allocs = sc.calls(f, 'yyalloc')
    if len(allocs) != 1: rep.broken('C11.R2: yy_scan_buffer of %s has %d yyalloc calls' % (v.name, len(allocs)))
    A = allocs[0]
    is_size = lambda val: is_load_of_param(sc, f, res, val, 1)
    found = {'size>=2': None, 'base[size-2]==0': None, 'base[size-1]==0': None}
    details = {}
    for b in f.blocks:
        br = b.ins[-1]
        if br.op != 'br' or not br.ops or not cfg.dominates(b, A.blk) or b is A.blk: continue
        tos = [t for t in br.targets if A in cfg.reach_from_block(f.bmap[t], avoid=[br])]
        if len(tos) != 1: continue
        t = tos[0]; other = [u for u in br.targets if u != t][0]
        con = S.edge_constraint(f, br, t)
        if con is None: continue
        lb = S.lower_bound(f, con, is_size)
        what = None
        if lb is not None:
            what = 'size>=2'; exact = (lb == 2); details[what] = 'size >= %d' % lb
        else:
            # base[size - k] == 0
            for side, oth in ((con[1], con[2]), (con[2], con[1])):
                d = f.def_of(S.strip_ext(f, side))
                if d is None or d.op != 'load' or oth != ('int', 0): continue
                g = f.def_of(d.ops[0])
                if g is None or g.op != 'getelementptr' or not is_load_of_param(sc, f, res, g.ops[0], 0): continue
                af = S.affine(f, g.ops[-1], is_size)
                if af is None: continue
                if af[1] in (-2, -1):
                    what = 'base[size-%d]==0' % -af[1]; exact = (con[0] == 'eq'); details[what] = 'base[size%+d] %s 0' % (af[1], con[0])
        if what is None: continue
        # failing edge: returns NULL, never allocates
        fr = cfg.reach_from_block(f.bmap[other], avoid=[br])
        fail_ok = A not in fr and any(y.op == 'store' and y.ops[1] == ('reg', 'retval') and y.ops[0] == ('null',) for y in fr) \
                  and not any(y.op == 'store' and y.ops[1] == ('reg', 'retval') and y.ops[0] != ('null',) for y in fr)
        found[what] = (br, exact, fail_ok)
    n = 0
    for what, r_ in found.items():
        n += 1
        key = sc.key('C11.R2', 'yy_scan_buffer', what)
        if r_ is None:
            rep.fail('C11.R2', key, where(A), 'yy_scan_buffer allocates the buffer object without first checking %s [variant %s]' % (what, v.name), variant=v.describe())
        elif not r_[1]:
            rep.fail('C11.R2', key, where(r_[0]), 'yy_scan_buffer: the test before the allocation gives "%s", not %s [variant %s]' % (details[what], what, v.name), variant=v.describe())
        elif not r_[2]:
            rep.fail('C11.R2', key, where(r_[0]), 'yy_scan_buffer: the failing edge of the %s test does not return NULL without allocating [variant %s]' % (what, v.name), variant=v.describe())
        else:
            rep.ok('C11.R2', '%s yy_scan_buffer: %s tested@%s before yyalloc@%s, failing edge returns NULL' % (v.name, what, r_[0].line, A.line))
    return n

# ---------------------------------------------------------------- R3

def r3(ctx, sc):
    rep = ctx.rep; v = sc.v
    f = sc.fn('yy_scan_bytes')
    if f is None: return 0
    cfg = sc.prog.cfg(f); res = ir.Resolver(f)
    key = sc.key('C11.R3', 'yy_scan_bytes', 'private-copy')
    sb = sc.calls(f, 'yy_scan_buffer'); al = sc.calls(f, 'yyalloc')
    if len(sb) != 1 or len(al) != 1: rep.broken('C11.R3: yy_scan_bytes of %s: %d yy_scan_buffer / %d yyalloc calls' % (v.name, len(sb), len(al)))
    sb, al = sb[0], al[0]
    # value chain: local <- yyalloc result ; yy_scan_buffer(load local, ...)
    arg = f.def_of(flow.strip_casts(f, sb.ops[0]))
    holder = arg.ops[0] if arg is not None and arg.op == 'load' else None
    sts = [x for x in f.ins if x.op == 'store' and x.ops[1] == holder] if holder else []
    from_alloc = [x for x in sts if flow.strip_casts(f, x.ops[0]) == ('reg', al.res)]
    probs = []
    if holder is None or f.def_of(holder) is None or f.def_of(holder).op != 'alloca' or len(sts) != 1 or not from_alloc or not cfg.ins_dominates(al, sb):
        probs.append((sb, 'the memory handed to yy_scan_buffer is not the block this function obtained from yyalloc (the caller\'s bytes would be scanned and modified in place)'))
    # size of the copy: length parameter + 2
    sl = S.deep_slice(f, al.ops[0])
    lenp = param_slot(sc, f, 1)
    if not any(y.op == 'load' and res.loc(y.ops[0]) == lenp for y in sl) or not any(y.op == 'add' and ('int', 2) in y.ops for y in sl):
        probs.append((al, 'the copy is not sized length + 2 (room for the two end-of-buffer bytes)'))
    # bytes are copied from the parameter
    src = param_slot(sc, f, 0)
    copied = False
    for x in f.ins:
        if x.op == 'store' and res.loc(x.ops[1])[0] == 'elem' and res.loc(x.ops[1])[1] == ('deref', res.loc(holder) if holder else None):
            d = f.def_of(S.strip_ext(f, x.ops[0]))
            if d is not None and d.op == 'load' and res.loc(d.ops[0])[0] == 'elem' and res.loc(d.ops[0])[1] == ('deref', src): copied = True
    if not copied:
        # the same copy written with walking pointers: `to = buf; from = yybytes; ... *to++ = *from++;` (neutral diff m1P3).
        # A local pointer "walks" an origin when it is initialised with the value of the origin slot and otherwise only stepped.
        def walks(l, origin):
            if not (isinstance(l, tuple) and l[0] == 'deref' and isinstance(l[1], tuple) and l[1][0] == 'local'): return False
            T = l[1]
            inits = [y for y in f.ins if y.op == 'store' and res.loc(y.ops[1]) == T]
            def from_origin(val):
                dd = f.def_of(flow.strip_casts(f, val)) if val[0] == 'reg' else None
                return dd is not None and dd.op == 'load' and res.loc(dd.ops[0]) == origin
            def step(val):
                dd = f.def_of(val) if val[0] == 'reg' else None
                if dd is None or dd.op != 'getelementptr': return False
                b_ = f.def_of(dd.ops[0]) if dd.ops[0][0] == 'reg' else None
                return b_ is not None and b_.op == 'load' and res.loc(b_.ops[0]) == T
            return any(from_origin(y.ops[0]) for y in inits) and all(from_origin(y.ops[0]) or step(y.ops[0]) for y in inits)
        hl = res.loc(holder) if holder else None
        for x in f.ins:
            if x.op == 'store' and x.ty is not None and x.ty.k == 'int' and x.ty.a == 8 and hl is not None and walks(res.loc(x.ops[1]), hl):
                d = f.def_of(S.strip_ext(f, x.ops[0]))
                if d is not None and d.op == 'load' and walks(res.loc(d.ops[0]), src): copied = True
    if not copied and not any(c.op == 'call' and c.callee in ('memcpy', 'llvm.memcpy.p0i8.p0i8.i64') for c in f.ins):
        probs.append((al, 'the caller\'s bytes are not copied into the new block'))
    # yy_is_our_buffer = 1 on the returned buffer, on every path to the return
    own = [x for x in f.ins if x.op == 'store' and sc.is_buf(res.loc(x.ops[1]), 'yy_is_our_buffer') and x.ops[0][0] == 'int' and x.ops[0][1] != 0]
    def through_result(x):
        l = res.loc(x.ops[1])
        base = l[3]
        if base[0] != 'deref': return False
        return any(y.op == 'store' and res.loc(y.ops[1]) == base[1] and flow.strip_casts(f, y.ops[0]) == ('reg', sb.res) for y in f.ins)
    own = [x for x in own if through_result(x)]
    if not own or any(y.op == 'ret' for y in cfg.reach(sb, avoid=own)):
        probs.append((sb, 'yy_is_our_buffer of the new buffer is not set after yy_scan_buffer: the private copy would never be freed'))
    if probs: rep.fail('C11.R3', key, where(probs[0][0]), 'yy_scan_bytes: %s [variant %s]' % (probs[0][1], v.name), variant=v.describe())
    else: rep.ok('C11.R3', '%s yy_scan_bytes: yyalloc(len+2)@%s -> copy -> yy_scan_buffer@%s -> yy_is_our_buffer = 1@%s' % (v.name, al.line, sb.line, own[0].line))
    return 1

# ---------------------------------------------------------------- R4

def buffer_new_constant(sc):
    """YY_BUFFER_NEW as the scanner reads it: the constant yylex compares yy_buffer_status with"""
    f = big_yylex(sc)
    if f is None: return None
    res = ir.Resolver(f)
    for x in f.ins:
        if x.op == 'icmp' and x.pred in ('eq', 'ne'):
            for val, k in ((x.ops[0], x.ops[1]), (x.ops[1], x.ops[0])):
                d = f.def_of(S.strip_ext(f, val)) if k[0] == 'int' else None
                if d is not None and d.op == 'load' and sc.is_buf(res.loc(d.ops[0]), 'yy_buffer_status'): return k[1]
    return None

def r4(ctx, sc):
    rep = ctx.rep; v = sc.v; n = 0
    NEW = buffer_new_constant(sc)
    for f in sc.fns('yy_flush_buffer'):
        cfg = sc.prog.cfg(f); res = ir.Resolver(f)
        bslot = param_slot(sc, f, 0)
        if NEW is None: rep.broken('C11.R4: YY_BUFFER_NEW not found in yylex of %s' % v.name)
        nulls = set()
        for b in f.blocks:
            bn = flow.branch_on_null(f, b.ins[-1]) if b.ins[-1].op == 'br' else None
            if bn is None: continue
            d = f.def_of(flow.strip_casts(f, bn[0]))
            if d is not None and d.op == 'load' and res.loc(d.ops[0]) == bslot: nulls.add((b, f.bmap[bn[1]]))
        ef = lambda a, b: (a, b) not in nulls
        # locality
        n += 1
        foreign = []
        for x in f.ins:
            if x.op != 'store': continue
            l = res.loc(x.ops[1])
            root = ir.root_of(l)
            if l[0] == 'local': continue
            if root == bslot and l != bslot: continue
            foreign.append(x)
        if foreign:
            rep.fail('C11.R4', sc.key('C11.R4', 'yy_flush_buffer', 'local'), where(foreign[0]), 'yy_flush_buffer stores to %s, which is not part of the buffer it was given [variant %s]' % (ir.loc_str(res.loc(foreign[0].ops[1])), v.name), variant=v.describe())
        else:
            rep.ok('C11.R4', '%s yy_flush_buffer: every store goes through the parameter b' % v.name)
        def thru_b(l):
            return l[0] == 'field' and l[1] == 'yy_buffer_state' and l[3] == ('deref', bslot)
        def chbuf_elem(x, k):
            """x stores 0 into b->yy_ch_buf[k]"""
            if x.ops[0] != ('int', 0): return False
            g = f.def_of(x.ops[1])
            if g is None or g.op != 'getelementptr' or g.ops[-1] != ('int', k): return False
            d = f.def_of(g.ops[0])
            return d is not None and d.op == 'load' and sc.is_buf(res.loc(d.ops[0]), 'yy_ch_buf') and thru_b(res.loc(d.ops[0]))
        def pos_value(x):
            g = f.def_of(x.ops[0])
            if g is None or g.op != 'getelementptr' or g.ops[-1] != ('int', 0): return False
            d = f.def_of(g.ops[0])
            return d is not None and d.op == 'load' and sc.is_buf(res.loc(d.ops[0]), 'yy_ch_buf') and thru_b(res.loc(d.ops[0]))
        st = [x for x in f.ins if x.op == 'store']
        obligations = [
            ('yy_n_chars=0', [x for x in st if sc.is_buf(res.loc(x.ops[1]), 'yy_n_chars') and thru_b(res.loc(x.ops[1])) and x.ops[0] == ('int', 0)]),
            ('yy_ch_buf[0]=EOB', [x for x in st if chbuf_elem(x, 0)]),
            ('yy_ch_buf[1]=EOB', [x for x in st if chbuf_elem(x, 1)]),
            ('yy_buf_pos=&yy_ch_buf[0]', [x for x in st if sc.is_buf(res.loc(x.ops[1]), 'yy_buf_pos') and thru_b(res.loc(x.ops[1])) and pos_value(x)]),
            ('yyatbol=1', [x for x in st if sc.is_buf(res.loc(x.ops[1]), 'yyatbol') and thru_b(res.loc(x.ops[1])) and x.ops[0][0] == 'int' and x.ops[0][1] != 0]),
            ('yy_buffer_status=YY_BUFFER_NEW', [x for x in st if sc.is_buf(res.loc(x.ops[1]), 'yy_buffer_status') and thru_b(res.loc(x.ops[1])) and x.ops[0] == ('int', NEW)]),
        ]
        for what, sts in obligations:
            n += 1
            key = sc.key('C11.R4', 'yy_flush_buffer', what.split('=')[0])
            if not sts or any(y.op == 'ret' for y in S.entry_reach(cfg, f, avoid=sts, edge_filter=ef)):
                rep.fail('C11.R4', key, fwhere(f), 'yy_flush_buffer(b) can return for a non-null b without storing b->%s: %s [variant %s]' % (what, {
                    'yy_n_chars=0': 'discarded characters would be scanned again',
                    'yy_ch_buf[0]=EOB': 'the scanner would not see an end-of-buffer sentinel and run into stale data',
                    'yy_ch_buf[1]=EOB': 'the second sentinel (jam in the end-of-buffer state) would be missing',
                    'yy_buf_pos=&yy_ch_buf[0]': 'scanning would resume in the middle of discarded data',
                    'yyatbol=1': 'a new source would not start at the beginning of a line',
                    'yy_buffer_status=YY_BUFFER_NEW': 'the next refill would not treat the buffer as a new source'}[what], v.name), variant=v.describe())
            else:
                rep.ok('C11.R4', '%s yy_flush_buffer: b->%s@%s on every path with b != NULL' % (v.name, what, sts[0].line))
        # the reload copies the fields into the scanner registers: every field store comes first
        n += 1
        key = sc.key('C11.R4', 'yy_flush_buffer', 'stores-before-reload')
        lds0 = sc.calls(f, 'yy_load_buffer_state')
        late = [x for c in lds0 for x in cfg.reach(c) if x.op == 'store' and any(x in sts for _, sts in obligations)]
        if late:
            what = next(w for w, sts in obligations if late[0] in sts)
            rep.fail('C11.R4', key, where(late[0]), 'yy_flush_buffer stores b->%s after it has reloaded the scanner registers from b: flushing the current buffer leaves the registers with the value from before the flush '
                     '(e.g. the stale scan position of a buffer that was switched away from and back) [variant %s]' % (what, v.name), variant=v.describe())
        else:
            rep.ok('C11.R4', '%s yy_flush_buffer: all field stores precede the reload of the scanner registers' % v.name)
        # load only under b == current
        n += 1
        key = sc.key('C11.R4', 'yy_flush_buffer', 'load-if-current')
        c0 = sc.prog.cfg(f, cut=False)
        lds = sc.calls(f, 'yy_load_buffer_state')
        okl = bool(lds)
        for c in lds:
            good = False
            for br, t in c0.control_deps(c.blk):
                con = S.edge_constraint(f, br, t.name)
                if con and con[0] == 'eq' and any(is_load_of_param(sc, f, res, s_, 0) for s_ in (con[1], con[2])) and any(S.is_current_value(sc, f, s_, res) for s_ in (con[1], con[2])): good = True
            okl = okl and good
        # and on the b == current edge the load is not skipped
        if okl:
            for c in lds:
                for br, t in c0.control_deps(c.blk):
                    if any(y.op == 'ret' for y in cfg.reach_from_block(f.bmap[t.name] if isinstance(t, str) else t, avoid=lds)): okl = False
        if okl: rep.ok('C11.R4', '%s yy_flush_buffer: yy_load_buffer_state()@%s exactly when b is the current buffer' % (v.name, lds[0].line))
        else: rep.fail('C11.R4', key, where(lds[0]) if lds else fwhere(f), 'yy_flush_buffer does not reload the scanner registers exactly when the flushed buffer is the current one [variant %s]' % v.name, variant=v.describe())
    return n

# ---------------------------------------------------------------- driver

# ---------------------------------------------------------------- R5

def _eval_slice(fn, v, env, res, sc, depth=0):
    """concrete value (unsigned 64-bit arithmetic) of the register/constant v, with loads of named scanner variables taken from env"""
    M = 1 << 64
    if v[0] == 'int': return v[1] % M
    if v[0] != 'reg' or depth > 30: return None
    d = fn.def_of(v)
    if d is None: return None
    if d.op == 'load':
        l = res.loc(d.ops[0])
        for canon, val in env.items():
            if sc.is_var(l, canon): return val % M
        return None
    if d.op in ('zext', 'sext', 'trunc', 'bitcast'): return _eval_slice(fn, d.ops[0], env, res, sc, depth + 1)
    if d.op in ('add', 'sub', 'mul'):
        a = _eval_slice(fn, d.ops[0], env, res, sc, depth + 1); b = _eval_slice(fn, d.ops[1], env, res, sc, depth + 1)
        if a is None or b is None: return None
        return {'add': a + b, 'sub': a - b, 'mul': a * b}[d.op] % M
    if d.op == 'icmp':
        a = _eval_slice(fn, d.ops[0], env, res, sc, depth + 1); b = _eval_slice(fn, d.ops[1], env, res, sc, depth + 1)
        if a is None or b is None: return None
        sa = a - M if a >= M // 2 else a; sb = b - M if b >= M // 2 else b
        return int({'eq': a == b, 'ne': a != b, 'ugt': a > b, 'uge': a >= b, 'ult': a < b, 'ule': a <= b,
                    'sgt': sa > sb, 'sge': sa >= sb, 'slt': sa < sb, 'sle': sa <= sb}[d.pred])
    return None

def r5(ctx, sc):
    """R5: yyensure_buffer_stack() leaves room for one push.  Its growth test is evaluated for every (top, max) with
    0 <= top < max <= 12: whenever the test sends control past the reallocation, top + 1 < max must hold, because
    yypush_buffer_state() increments yy_buffer_stack_top and stores the new buffer at that index straight afterwards."""
    rep = ctx.rep; v = sc.v
    f = sc.fn('yyensure_buffer_stack')
    if f is None: return 0
    res = ir.Resolver(f); cfg = sc.prog.cfg(f)
    grows = sc.calls(f, 'yyrealloc')
    if not grows: rep.broken('C11.R5: yyensure_buffer_stack of %s never reallocates the stack' % v.name)
    tests = []
    for b in f.blocks:
        br = b.ins[-1]
        if br.op != 'br' or not br.ops: continue
        names = set()
        for d in flow.value_slice(f, br.ops[0]):
            if d.op == 'load':
                for canon in ('yy_buffer_stack_top', 'yy_buffer_stack_max'):
                    if sc.is_var(res.loc(d.ops[0]), canon): names.add(canon)
        if names == {'yy_buffer_stack_top', 'yy_buffer_stack_max'}: tests.append(br)
    key = sc.key('C11.R5', 'yyensure_buffer_stack', 'room-for-one-push')
    if len(tests) != 1:
        rep.broken('C11.R5: %d branches of yyensure_buffer_stack in %s compare yy_buffer_stack_top with yy_buffer_stack_max (1 expected)' % (len(tests), v.name))
    br = tests[0]
    # which target avoids the reallocation?
    side = []
    for k, t in enumerate(br.targets):
        blk = f.bmap[t]
        reach = cfg.reach_from_block(blk)
        side.append(any(x in grows for x in reach) or any(x in grows for x in blk.ins))
    if side[0] == side[1]: rep.broken('C11.R5: cannot tell the growing side of the capacity test in %s' % v.name)
    bad = None; n_eval = 0
    for mx in range(1, 13):
        for top in range(0, mx):
            c = _eval_slice(f, br.ops[0], {'yy_buffer_stack_top': top, 'yy_buffer_stack_max': mx}, res, sc)
            if c is None: rep.broken('C11.R5: capacity test of yyensure_buffer_stack in %s is not a function of top and max only' % v.name)
            n_eval += 1
            grows_here = side[0] if c else side[1]
            if not grows_here and not top + 1 < mx and bad is None: bad = (top, mx)
    if bad:
        rep.fail('C11.R5', key, where(br), 'yyensure_buffer_stack does not grow the stack for yy_buffer_stack_top = %d, yy_buffer_stack_max = %d, but the push that follows stores '
                 'the new buffer at index %d: one slot past the end of the array [variant %s]' % (bad[0], bad[1], bad[0] + 1, v.name), variant=v.describe(),
                 replay_input='nest yypush_buffer_state() calls (ASan reports the first push past the end)')
    else:
        rep.ok('C11.R5', '%s yyensure_buffer_stack: the growth test leaves top + 1 < max on the no-growth side (%d evaluations)' % (v.name, n_eval))
    return 1

# ---------------------------------------------------------------- R6

def _is_top_load(sc, fn, res, v):
    return is_load_of_var(sc, fn, res, v, 'yy_buffer_stack_top')

def top_slot_loads(sc, fn, res, v, deep=False):
    """loads of yy_buffer_stack[yy_buffer_stack_top] (index = the top register itself) in the slice of value v"""
    out = []
    for d in (S.deep_slice(fn, v) if deep else flow.value_slice(fn, flow.strip_casts(fn, v))):
        if d.op != 'load' or not sc.slot(res.loc(d.ops[0])): continue
        g = fn.def_of(d.ops[0])
        af = S.affine(fn, g.ops[-1], lambda val: _is_top_load(sc, fn, res, val)) if g is not None and g.op == 'getelementptr' else None
        if af is not None and af[1] == 0: out.append(d)
    return out

def returns_top_slot(sc, g):
    """helper g (yy_current_buffer) returns the element yy_buffer_stack[yy_buffer_stack_top], or NULL, on every path"""
    res = ir.Resolver(g); seen = 0
    vals = [x.ops[0] for x in g.ins if x.op == 'ret' and x.ops]
    for v in vals:
        ok = False
        for d in S.deep_slice(g, v):
            if d.op == 'load' and top_slot_loads(sc, g, res, ('reg', d.res)): ok = True
        if v == ('null',): ok = True
        if not ok: return False
        seen += 1
    return seen > 0

def r6(ctx, sc):
    """R6: "only push if top exists, otherwise replace top".  In yypush_buffer_state every increment of yy_buffer_stack_top is
    control dependent on the non-null edge of a test of the CURRENT TOP SLOT - the element yy_buffer_stack[yy_buffer_stack_top],
    loaded directly, through the yy_current_buffer() macro, or returned by the yy_current_buffer() function (whose body is
    checked).  A test of the stack pointer itself does not count: it is non-null whenever yyensure_buffer_stack() has run, so a
    push onto an empty top slot (after yy_delete_buffer(YY_CURRENT_BUFFER), or before the first yylex) would stack the new
    buffer above the hole and the matching pop would uncover a NULL current buffer."""
    rep = ctx.rep; v = sc.v
    f = sc.fn('yypush_buffer_state')
    if f is None: return 0
    res = ir.Resolver(f); c0 = sc.prog.cfg(f, cut=False)
    incs = []
    for x in stores_of(sc, f, 'yy_buffer_stack_top'):
        af = S.affine(f, x.ops[0], lambda val: _is_top_load(sc, f, res, val))
        if af is not None and af[1] > 0: incs.append(x)
    if not incs: rep.broken('C11.R6: yypush_buffer_state of %s never increments yy_buffer_stack_top' % v.name)
    key = sc.key('C11.R6', 'yypush_buffer_state', 'push-guard-tests-top-slot')
    n = 0
    for x in incs:
        n += 1
        good = None; other = None
        for br, t in c0.control_deps_closure(x.blk):
            bn = flow.branch_on_null(f, br) if br.op == 'br' else None
            if bn is None: continue
            if t.name != bn[2]: other = other or br; continue    # the increment is on the null side of this test
            p = flow.strip_casts(f, bn[0])
            d = f.def_of(p)
            if top_slot_loads(sc, f, res, p): good = br; break
            if d is not None and d.op in ('call', 'invoke') and sc.callee(d) == 'yy_current_buffer' and all(returns_top_slot(sc, g) for g in sc.fns('yy_current_buffer')) and sc.fns('yy_current_buffer'):
                good = br; break
            other = other or br                                  # (the nearest one is named in the report)
        if good is not None:
            rep.ok('C11.R6', '%s yypush_buffer_state: ++yy_buffer_stack_top@%s only on the non-null edge of the test of the top slot @%s' % (v.name, x.line, good.line))
        else:
            what = 'no null test at all'
            if other is not None:
                ls = [ir.loc_str(l) for d, l in flow.cond_loads(f, other, res)]
                what = 'a test of %s' % (', '.join(ls) or 'something else')
            rep.fail('C11.R6', key, where(x), 'yypush_buffer_state increments yy_buffer_stack_top under %s, not under a test that the current top slot '
                     'yy_buffer_stack[yy_buffer_stack_top] is occupied: pushing while the top slot is empty (after yy_delete_buffer(YY_CURRENT_BUFFER), or before the first '
                     'yylex()) stacks the new buffer above the hole; the matching yypop_buffer_state() then leaves no current buffer and the input of the buffers below is lost '
                     '[variant %s]' % (what, v.name), variant=v.describe(),
                     replay_input='in an action: yy_delete_buffer(YY_CURRENT_BUFFER); yypush_buffer_state(yy_create_buffer(f, YY_BUF_SIZE)); ... <<EOF>> { yypop_buffer_state(); if (!YY_CURRENT_BUFFER) yyterminate(); } '
                                  '-- with an including file below, its remaining input must still be scanned after the pop')
    return n

# ---------------------------------------------------------------- R7

class FreshEval:
    """Per-path evaluation of "what happens to a freshly allocated struct yy_buffer_state": follows the block returned by one
    allocation call through casts, locals and the calls that receive it (callees of the scanner are entered), records the
    fields stored through it, and decides every comparison of the fresh pointer: against NULL it is non-null (the failure
    edge is the fatal path), against any other pointer it is different (a fresh allocation aliases nothing that existed
    before).  Every other branch forks.  Outcome of a path: (fields initialised, the function returns the fresh block)."""
    F = 'F'
    def __init__(s, sc, max_states=4000):
        s.sc = sc; s.nr = sc.prog.noreturn(); s.states = 0; s.max_states = max_states
    def run(s, fn, root, binds=None, depth=0):
        """outcomes [(frozenset of field names, returns fresh?)] of fn; root: the allocation call (top level) or None with
        binds = {param register: F} for an entered callee"""
        F = s.F; out = set()
        work = [(fn.entry, 0, None, dict(binds or {}), {}, frozenset(), {})]
        while work:
            blk, idx, prev, regs, cells, init, visits = work.pop()
            s.states += 1
            if s.states > s.max_states: raise OverflowError('too many paths')
            visits = dict(visits); visits[blk.name] = visits.get(blk.name, 0) + 1
            if visits[blk.name] > 2: continue
            regs = dict(regs); cells = dict(cells)
            pend = [(regs, cells, init)]        # a call that forks inside the callee multiplies the states of this block
            for x in blk.ins[idx:]:
                nxt = []
                for regs, cells, init in pend:
                    op = x.op
                    if op == 'phi':
                        for v, lab in zip(x.ops, x.cases or ()):
                            if prev is not None and lab == prev.name and v[0] == 'reg': regs[x.res] = regs.get(v[1])
                        nxt.append((regs, cells, init)); continue
                    if op in ('bitcast', 'addrspacecast'):
                        if x.ops[0][0] == 'reg': regs[x.res] = regs.get(x.ops[0][1])
                    elif op in ('zext', 'sext', 'trunc'):
                        if x.ops[0][0] == 'reg' and isinstance(regs.get(x.ops[0][1]), tuple) and regs[x.ops[0][1]][0] == 'bool': regs[x.res] = regs[x.ops[0][1]]
                    elif op == 'xor':
                        a = regs.get(x.ops[0][1]) if x.ops[0][0] == 'reg' else None
                        if isinstance(a, tuple) and a[0] == 'bool' and x.ops[1] == ('int', 1): regs[x.res] = ('bool', 1 - a[1])
                    elif op == 'getelementptr':
                        b = regs.get(x.ops[0][1]) if x.ops[0][0] == 'reg' else None
                        if b == F:
                            if len(x.ops) == 2 and x.ops[1] == ('int', 0): regs[x.res] = F
                            elif len(x.ops) == 3 and x.ops[1] == ('int', 0) and x.ops[2][0] == 'int':
                                regs[x.res] = ('fld', fn.mod.field_name(x.srcty, x.ops[2][1]) or '#%d' % x.ops[2][1])
                    elif op == 'load':
                        a = x.ops[0]
                        if a[0] == 'reg':
                            d = fn.def_of(a)
                            if d is not None and d.op == 'alloca': regs[x.res] = cells.get(a[1])
                    elif op == 'store':
                        v, a = x.ops
                        if a[0] == 'reg':
                            t = regs.get(a[1]); d = fn.def_of(a)
                            if isinstance(t, tuple) and t[0] == 'fld': init = init | {t[1]}
                            elif d is not None and d.op == 'alloca': cells[a[1]] = regs.get(v[1]) if v[0] == 'reg' else None
                    elif op == 'icmp':
                        ta = regs.get(x.ops[0][1]) if x.ops[0][0] == 'reg' else None
                        tb = regs.get(x.ops[1][1]) if x.ops[1][0] == 'reg' else None
                        if x.pred in ('eq', 'ne') and (ta == F or tb == F):
                            same = (ta == F and tb == F)
                            regs[x.res] = ('bool', int(same == (x.pred == 'eq')))
                    elif op in ('call', 'invoke'):
                        if x is root: regs[x.res] = F
                        else:
                            if isinstance(x.callee, str) and x.callee in s.nr: continue          # the path ends in the fatal hook
                            tags = [regs.get(o[1]) if o[0] == 'reg' else None for o in x.ops]
                            cn = s.sc.callee(x)
                            gs = s.sc.fns(cn) if cn else []
                            gs = [g for g in gs if g.blocks and len(g.params) == len(x.ops)] if F in tags else []
                            if gs and depth < 5:
                                g = gs[0]
                                b2 = {pn: F for (pt, pn), t in zip(g.params, tags) if t == F}
                                for ginit, gret in s.run(g, None, b2, depth + 1):
                                    r2 = dict(regs)
                                    if x.res: r2[x.res] = F if gret else None
                                    nxt.append((r2, dict(cells), init | ginit))
                                continue
                    nxt.append((regs, cells, init))
                pend = nxt
                if not pend: break
            else:
                pass
            if not pend: continue
            t = blk.ins[-1]
            for regs, cells, init in pend:
                if t.op == 'ret':
                    rv = regs.get(t.ops[0][1]) if t.ops and t.ops[0][0] == 'reg' else None
                    out.add((init, rv == F))
                elif t.op == 'br':
                    if t.ops and len(t.targets) == 2:
                        c = regs.get(t.ops[0][1]) if t.ops[0][0] == 'reg' else None
                        tg = [t.targets[0] if c[1] else t.targets[1]] if isinstance(c, tuple) and c[0] == 'bool' else list(dict.fromkeys(t.targets))
                    else: tg = t.targets[:1]
                    for l in tg: work.append((fn.bmap[l], 0, blk, regs, cells, init, visits))
                elif t.op == 'switch':
                    for l in dict.fromkeys([l for _, l in t.cases] + [t.callee]): work.append((fn.bmap[l], 0, blk, regs, cells, init, visits))
                elif t.op == 'invoke':
                    work.append((fn.bmap[t.targets[0]], 0, blk, regs, cells, init, visits))
        return out

CANON_FIELD = {sp: c for c, sps in S.BUF_FIELDS.items() for sp in sps}

def fields_read(sc):
    """fields of struct yy_buffer_state that some function of the scanner loads"""
    out = set()
    for f in sc.mod.functions.values():
        res = ir.Resolver(f)
        for x in f.ins:
            if x.op == 'load':
                l = res.loc(x.ops[0])
                if l is not None and l[0] == 'field' and l[1] == 'yy_buffer_state': out.add(l[2])
    return out

def r7(ctx, sc):
    """R7: a buffer object is completely initialised when its creator hands it out.  For the allocation of a struct
    yy_buffer_state in yy_create_buffer and yy_scan_buffer, every path from the allocation to a return of the fresh block -
    through yy_init_buffer / yy_flush_buffer / yy_switch_to_buffer, which are entered - stores every field that the scanner
    reads anywhere (FreshEval: comparisons of the fresh block with the current buffer are decided as "different")."""
    rep = ctx.rep; v = sc.v; n = 0
    need = fields_read(sc)
    for canon in ('yy_create_buffer', 'yy_scan_buffer'):
        for f in sc.fns(canon):
            roots = []
            for c in sc.calls(f, 'yyalloc'):
                if any(u.op == 'bitcast' and u.ops[0] == ('reg', c.res) and 'yy_buffer_state' in str(u.ty) for u in f.ins): roots.append(c)
            if not roots:
                if sc.calls(f, canon): continue               # forwarding overload (C++)
                rep.broken('C11.R7: %s of %s does not allocate a struct yy_buffer_state' % (canon, v.name))
            for root in roots:
                try: outs = FreshEval(sc).run(f, root)
                except OverflowError: rep.broken('C11.R7: %s of %s: too many paths' % (canon, v.name))
                rets = [i for i, r_ in outs if r_]
                if not rets: rep.broken('C11.R7: %s of %s never returns the block it allocates' % (canon, v.name))
                for fld in sorted(need):
                    n += 1
                    cf = CANON_FIELD.get(fld, fld)
                    if all(fld in i for i in rets):
                        rep.ok('C11.R7', '%s %s: %s is stored on each of the %d evaluated paths that return the new buffer' % (v.name, canon, cf, len(rets)))
                    else:
                        got = sorted(CANON_FIELD.get(x, x) for x in set.intersection(*[set(i) for i in rets]))
                        rep.fail('C11.R7', sc.key('C11.R7', canon, 'uninitialised:' + cf), where(root),
                                 '%s can return a freshly allocated buffer whose field %s was never stored (the allocator does not clear memory; the scanner reads the field '
                                 'later); on that path only %s are set.  A comparison of the new block with the current buffer is taken as "different" [variant %s]' % (
                                     canon, cf, ', '.join(got), v.name), variant=v.describe())
    return n

# ---------------------------------------------------------------- R8

# functions that run only while a scan is in progress, i.e. after the first-call block of yylex has made sure that a current buffer
# (and with it the buffer stack) exists; one entry per symbol with the reason
SCAN_CONTEXT = {
    'yylex': 'its first-call block creates the stack and the current buffer before anything else; user actions run inside it',
    'yyinput': 'documented for use in actions only',
    'yyunput': 'documented for use in actions only',
    'yyless': 'documented for use in actions (and in section-3 helpers called from actions)',
    'yyatbol': 'c99/go: function form of the yyatbol() / YY_AT_BOL() macro, documented for use in actions',
    'verif_s3_less': 'probe helper: section-3 code that calls yyless, called from actions',
    'main': '%option main: calls yylex only',
}
# (a function all of whose callers in the scanner are in the scan context belongs to it as well: yy_get_next_buffer, yyunput_r, yyatbol, ...)
# functions that are not entry points although they have external linkage in some back end: their callers carry the obligation
INTERNAL = {
    'yy_load_buffer_state': 'static in the C scanner, protected member in C++, undocumented in c99/go: called by the buffer API after it has made sure a buffer is current',
    'yy_init_buffer': 'static in the C scanner, protected member in C++: called by yy_create_buffer / yyrestart',
}

def stack_exists_edges(sc, f):
    """CFG edges (block, successor) that are taken only when the buffer stack exists: the non-null edge of a null test of the stack
    pointer or of the current-buffer value, and the equal edge of a comparison of the current-buffer value with a pointer that is
    itself known to be non-null there (a local/parameter all of whose null tests have been passed on the non-null side)"""
    res = ir.Resolver(f); cfg = sc.prog.cfg(f); out = set()
    helper_ok = all(returns_top_slot(sc, g) for g in sc.fns('yy_current_buffer'))
    def is_cur(v):
        v = flow.strip_casts(f, v)
        d = f.def_of(v)
        if d is not None and d.op in ('call', 'invoke') and sc.callee(d) == 'yy_current_buffer': return helper_ok
        return S.is_current_value(sc, f, v, res)
    def is_stack(v):
        d = f.def_of(flow.strip_casts(f, v))
        return d is not None and d.op == 'load' and sc.is_var(res.loc(d.ops[0]), 'yy_buffer_stack')
    nonnull_edges = {}       # local -> edges on which it was found non-null
    for b in f.blocks:
        br = b.ins[-1]
        bn = flow.branch_on_null(f, br) if br.op == 'br' else None
        if bn is None: continue
        if is_stack(bn[0]) or is_cur(bn[0]): out.add((b, f.bmap[bn[2]]))
        d = f.def_of(flow.strip_casts(f, bn[0]))
        if d is not None and d.op == 'load' and res.loc(d.ops[0])[0] == 'local': nonnull_edges.setdefault(res.loc(d.ops[0]), set()).add((b, f.bmap[bn[2]]))
    for b in f.blocks:
        br = b.ins[-1]
        if br.op != 'br' or not br.ops: continue
        for t in br.targets:
            con = S.edge_constraint(f, br, t)
            if con is None or con[0] != 'eq': continue
            for cur, oth in ((con[1], con[2]), (con[2], con[1])):
                if not is_cur(cur): continue
                d = f.def_of(flow.strip_casts(f, oth))
                if d is None or d.op != 'load': continue
                l = res.loc(d.ops[0])
                ne = nonnull_edges.get(l)
                if ne and br not in S.entry_reach(cfg, f, edge_filter=lambda a, c, ne=ne: (a, c) not in ne): out.add((b, f.bmap[t]))
    return out

def r8(ctx, sc):
    """R8: the buffer stack is not indexed before it exists.  yy_buffer_stack is NULL until yyensure_buffer_stack() has run, and most
    of the buffer API may be called before that (yy_create_buffer, yy_delete_buffer, yy_flush_buffer, yyget/yyset_lineno, ...).
    In every function outside the scan context, an access of an element yy_buffer_stack[..] must not be reachable from the function
    entry without passing a call that makes the stack exist (yyensure_buffer_stack, or a scanner function that calls it on every
    path) or an edge on which the stack is known to exist (stack_exists_edges).  A function that has such an unprotected access
    passes the requirement on to its callers: a call of it is treated like an access."""
    rep = ctx.rep; v = sc.v
    fns = [f for f in sc.mod.functions.values() if f.blocks]
    ensures = {g.name for g in sc.fns('yyensure_buffer_stack')}
    if not ensures: rep.broken('C11.R8: yyensure_buffer_stack not found in %s' % v.name)
    cg = sc.callgraph()
    def callees(f, c):
        n_ = sc.callee(c)
        return sc.fns(n_) if n_ else []
    # functions that make the stack exist on every returning path
    changed = True
    while changed:
        changed = False
        for f in fns:
            if f.name in ensures: continue
            cs = [c for c in f.ins if c.op in ('call', 'invoke') and any(g.name in ensures for g in callees(f, c))]
            if cs and not any(y.op == 'ret' for y in S.entry_reach(sc.prog.cfg(f), f, avoid=cs)): ensures.add(f.name); changed = True
    base_ens = {g.name for g in sc.fns('yyensure_buffer_stack')}
    info = {}
    for f in fns:
        if f.name in base_ens: continue
        res = ir.Resolver(f)
        acc = [x for x in f.ins if x.op in ('load', 'store') and sc.slot(res.loc(x.ptr))]
        calls = [c for c in f.ins if c.op in ('call', 'invoke') and callees(f, c)]
        if not acc and not calls: continue
        info[f] = (acc, calls, stack_exists_edges(sc, f), [c for c in calls if any(g.name in ensures for g in callees(f, c))])
    callers = {}
    for f in fns:
        for c in f.ins:
            if c.op in ('call', 'invoke'):
                for g in callees(f, c): callers.setdefault(g.name, set()).add(f.name)
    scan = {f.name for f in fns if sc.canon(f) in SCAN_CONTEXT}
    changed = True
    while changed:
        changed = False
        for f in fns:
            cs_ = callers.get(f.name, set()) - {f.name}
            if f.name not in scan and cs_ and cs_ <= scan: scan.add(f.name); changed = True
    needs = {}           # function name -> first unprotected site
    changed = True
    while changed:
        changed = False
        for f, (acc, calls, X, ens) in info.items():
            if f.name in needs: continue
            sites = acc + [c for c in calls if any(g.name in needs for g in callees(f, c))]
            if not sites: continue
            r_ = S.entry_reach(sc.prog.cfg(f), f, avoid=ens, edge_filter=lambda a, b, X=X: (a, b) not in X)
            bad = [x for x in sites if x in r_]
            if bad: needs[f.name] = bad[0]; changed = True
    n = 0
    for f, (acc, calls, X, ens) in info.items():
        c = sc.canon(f)
        if not acc and not any(g.name in needs for cc in calls for g in callees(f, cc)): continue
        if f.name in scan: continue
        n += 1
        if f.name not in needs:
            rep.ok('C11.R8', '%s %s: every access of yy_buffer_stack[..] (direct or in a callee) lies behind yyensure_buffer_stack() or a test that the stack / current buffer exists' % (v.name, c))
        elif f.linkage == 'internal' or c in INTERNAL:
            # a static function: its callers carry the obligation (they are in `needs` or protect the call)
            rep.ok('C11.R8', '%s %s (static): requires an existing stack; every caller outside the scan context provides it or is reported' % (v.name, c))
        else:
            x = needs[f.name]
            via = ''
            if x.op in ('call', 'invoke'): via = ' (in the callee %s)' % sc.callee(x)
            rep.fail('C11.R8', sc.key('C11.R8', c, 'stack-may-not-exist'), where(x),
                     '%s indexes yy_buffer_stack[..]%s on a path on which nothing guarantees that the buffer stack exists: the function may be called before the first '
                     'yylex() / yyensure_buffer_stack() (the stack pointer is NULL then), and this access is neither behind a test of the stack or of yy_current_buffer() '
                     'nor behind a call that creates the stack [variant %s]' % (c, via, v.name), variant=v.describe(),
                     replay_input='b1 = yy_create_buffer(f, YY_BUF_SIZE); b2 = yy_create_buffer(g, YY_BUF_SIZE); yy_delete_buffer(b2);  -- before any yylex(): must not crash')
    return n

# ---------------------------------------------------------------- driver

def run(ctx):
    rep = ctx.rep
    vs = ctx.variants()
    rep.require(len(vs) >= 100, 'only %d scanner variants compiled to IR' % len(vs))
    backs = set(); backs6 = set(); backs7 = set(); backs8 = set(); c_scan = 0
    for v in vs:
        sc = scanner(v)
        if r1(ctx, sc): backs.add(v.backend)
        if r2(ctx, sc): c_scan += 1
        r3(ctx, sc)
        r4(ctx, sc)
        r5(ctx, sc)
        if r6(ctx, sc): backs6.add(v.backend)
        if r7(ctx, sc): backs7.add(v.backend)
        if r8(ctx, sc): backs8.add(v.backend)
    rep.require(backs6 >= {'nr', 'r', 'cxx', 'c99', 'go'}, 'C11.R6 ran only on back ends %s' % sorted(backs6))
    rep.require(backs >= {'nr', 'r', 'cxx', 'c99', 'go'}, 'C11.R1 ran only on back ends %s' % sorted(backs))
    rep.setcount('variants_analysed', len(vs))
    rep.setcount('variants_with_yy_scan_buffer', c_scan)
    rep.floor('C11.R1', 800, 'save+load for three functions and the slot reset of yy_delete_buffer in >=110 variants')
    rep.floor('C11.R2', 270, 'three tests in yy_scan_buffer of >=90 C variants')
    rep.floor('C11.R3', 90, 'yy_scan_bytes of >=90 C variants')
    rep.floor('C11.R5', 100, 'yyensure_buffer_stack of >=100 variants')
    rep.floor('C11.R6', 100, 'the one increment of yy_buffer_stack_top in yypush_buffer_state of >=100 variants')
    rep.require(backs7 >= {'nr', 'r', 'cxx', 'c99', 'go'}, 'C11.R7 ran only on back ends %s' % sorted(backs7))
    rep.require(backs8 >= {'nr', 'r', 'cxx', 'c99', 'go'}, 'C11.R8 ran only on back ends %s' % sorted(backs8))
    rep.floor('C11.R7', 2000, '>=10 fields read by the scanner x (yy_create_buffer + yy_scan_buffer) in >=100 variants')
    rep.floor('C11.R8', 1000, '>=10 functions outside the scan context that touch yy_buffer_stack[..] (directly or through a callee) in >=100 variants')
    rep.floor('C11.R4', 850, 'locality + 6 stores + conditional reload in yy_flush_buffer of >=110 variants')
    rep.undecided += ['no loss, duplication or reordering of input across arbitrary histories of switches (value-level)',
                      'that user code does not keep pointers into a buffer across a switch',
                      'yyrestart on the current buffer discards its contents by design (flush), nothing is saved',
                      'bounds of yy_buffer_stack (C13)']
    rep.assumptions += ['clang -O0 IR of the instantiated skeleton is a faithful rendering of the generated source',
                        'C++ has no yy_scan_buffer/yy_scan_bytes; R2/R3 run on the C back ends only',
                        '"an old buffer exists" is approximated by removing the CFG edges on which a null test of the current buffer succeeds']
    return rep.finish('other',
        'Ordering/pairing analysis on the LLVM IR of %d scanner variants: for every store that changes the current buffer in the three switching functions, '
        'must-pass-through of the three save stores (identified by value shape: register loaded, field of the buffer reached through the top-of-stack slot) on the CFG '
        'with null-buffer edges removed, and must-pass-through of yy_load_buffer_state() towards the return; dominating relational guards of the allocation in '
        'yy_scan_buffer with exact bounds; provenance of the scanned block in yy_scan_bytes; store census and must-store set of yy_flush_buffer.' % len(vs))
