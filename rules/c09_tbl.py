"""C09.R6 - the emitted yy_rule_can_match_eol[] table is complete: for every rule of the language probes whose token can
contain a newline (decided on the rule text by the E3 model), the generated scanner's table has the flag set; the default
rule is included.  Reads the constant table from the variant's IR; nothing is run.  (A set flag for a rule that cannot match
a newline only costs time and is not a violation.)"""
import variants, lex, tbl, tbl_probes

def can_nl(ast):
    k = ast[0]
    if k == 'set': return 10 in ast[1]
    if k in ('cat', 'alt'): return any(can_nl(x) for x in ast[1])
    if k == 'star': return can_nl(ast[1])
    return False

def run(ctx, rep):
    vs = []
    probes = dict(tbl_probes.LANG)
    probes['scanl'] = tbl_probes.scanl_probe(ctx.art)[0]       # flex's own ~275 patterns
    for name, body in probes.items():
        for tn, topts in (('Cem', ['ecs', 'meta-ecs']), ('Cf', ['full'])):
            if name == 'sc' and tn == 'CF': continue
            opts = ['noyywrap', '8bit', 'yylineno'] + topts
            spec = ''.join('%%option %s\n' % o for o in opts) + body.lstrip('\n')
            vs.append(variants.Variant('eol_%s_%s' % (name, tn), 'nr', (), opts, raw_spec=spec))
    variants.instantiate(ctx.art, vs, 'eol')
    n = 0
    for v in vs:
        if v.ll is None: rep.broken('C09.R6: probe %s was not generated: %s' % (v.name, (v.stderr or v.ll_err)[-160:]))
        mod = variants.module(v)
        flags = tbl.int_array(mod, 'yy_rule_can_match_eol')
        if flags is None: rep.broken('C09.R6: %s has no yy_rule_can_match_eol table although %%option yylineno was given' % v.name)
        sp = lex.parse_spec(v.spec())
        k = 0
        rules = []
        for r in sp.rules:
            if r.is_eof: continue
            k += 1
            rules.append((k, r.pat, can_nl(lex.parse_pattern(r.pat, sp)['head'])))
        rules.append((k + 1, '<default rule>', True))
        if len(flags) < k + 2: rep.broken('C09.R6: %s: table has %d entries for %d rules' % (v.name, len(flags), k + 1))
        probe = v.name.split('_')[1]
        for num, pat, nl in rules:
            if not nl: continue
            n += 1
            if flags[num]:
                rep.ok('C09.R6', '%s rule %d %r can match a newline and is flagged' % (v.name, num, pat))
            else:
                rep.fail('C09.R6', 'C09.R6:eoltable:%s' % ('default-rule' if pat.startswith('<') else probe + ':' + pat), '%s rule %d' % (v.name, num),
                         'rule %r can match a newline but yy_rule_can_match_eol[%d] is 0: the scanner does not count the newlines this rule consumes' % (pat, num),
                         replay_input=v.spec(), variant=v.describe())
    return n
