"""C06 - line anchors ('^', '$') and trailing context: the decidable, structural part.

R1  '^' rules attach only to the beginning-of-line entry point.  In parse.y the production that sets bol_needed
    distributes its pattern into scbol[] only (read-modify-write of the same element, the pattern that finish_rule saw),
    every other non-default production into scset[] only; bol_needed is set on every pass through that production; and
    dfa.c:ntod reads scbol[] only for the even (beginning-of-line) start states.
R2  the beginning-of-line flag is maintained by every consumer of input.  In every variant whose start-state
    computation reads yyatbol: every rule arm of yylex passes through the rule set-up (flag := last byte of the
    token == '\\n') before the user action; yyinput stores (c == '\\n') for the byte it returns on every path that
    returns a byte; yy_flush_buffer and yy_scan_buffer store 1; no other function writes the flag (yysetbol excepted).
R3  '$' is a trailing newline: the production that links mkstate('\\n') does so behind an epsilon state created in the
    same action, and sets headcnt = 0, trailcnt = 1, rulelen = 1, trlcontxt = true.
R8  the user's %option pre-action code sees (and may override) the flag of the current token: in own probes with a
    pre-action (one per back end; the pre-action is a call of an undefined marker function) every rule arm of yylex
    reaches the pre-action only through the rule set-up's update of the flag (must-pass-through from the head of the arm).
"""
import re
import ir, flow, variants
from common import where, fwhere
import scanner_ids as S
from scanner_ids import scanner
from c05 import Cases, array_elem, esig, sig_mentions, action_switch, eob_constant, copies_of

NL = 10

# ---------------------------------------------------------------- R1 (generator)

def r1(ctx):
    rep = ctx.rep; P = ctx.flex
    f = P.fn('yyparse')
    if f is None: rep.broken('C06.R1: yyparse not found')
    cs = Cases(P, f); cfg = cs.cfg
    bn = [x for x in f.ins if x.op == 'store' and x.ops[1] == ('glob', 'bol_needed')]
    if len(bn) != 1 or cs.label_of(bn[0].blk) is None:
        rep.broken('C06.R1: expected exactly one store to bol_needed inside a grammar action of yyparse, found %d' % len(bn))
    bol_label = cs.label_of(bn[0].blk)
    dist = {}
    for x in f.ins:
        if x.op != 'store': continue
        for arr in ('scset', 'scbol'):
            idx = array_elem(f, x.ops[1], arr)
            d = f.def_of(x.ops[0])
            if idx is None or d is None or d.op != 'call' or d.callee != 'mkbranch': continue
            lab = cs.label_of(x.blk)
            if lab is None: rep.broken('C06.R1: distribution store outside a grammar action at %s' % where(x))
            dist.setdefault(lab, []).append((x, arr, d))
    if bol_label not in dist: rep.broken('C06.R1: the production that sets bol_needed distributes no rule')
    n = 0
    for lab, sts in sorted(dist.items()):
        default = any(y.op == 'store' and y.ops[1] == ('glob', 'default_rule') for y in cs.ins(lab))
        if default: continue
        n += 1
        want = 'scbol' if lab == bol_label else 'scset'
        kind = 'caret-rule' if lab == bol_label else 'plain-rule'
        key = 'C06.R1:parse.y:%s' % kind
        fr = [c for c in cs.ins(lab) if c.op == 'call' and c.callee == 'finish_rule']
        bad = None
        if len(sts) < 2: bad = (sts[0][0], 'expected the explicit-list and the all-conditions distribution, found %d store(s)' % len(sts))
        for x, arr, call in sts:
            if arr != want:
                bad = (x, ("the '^' production adds the rule to scset[] (it would match in mid-line)" if want == 'scbol'
                           else "a production that does not set bol_needed adds the rule to scbol[] (it would match only at the beginning of a line)")); break
            if esig(f, call.ops[0]) != ('ld', esig(f, x.ops[1])):
                bad = (x, '%s[k] = mkbranch(<other element>, pat)' % arr); break
            if len(fr) != 1 or esig(f, call.ops[1]) != esig(f, fr[0].ops[0]):
                bad = (x, 'the pattern handed to mkbranch is not the one given to finish_rule'); break
        if bad: rep.fail('C06.R1', key + ':' + want, where(bad[0]), bad[1])
        else: rep.ok('C06.R1', 'parse.y:%s %s production: %d distribution stores, all %s[k] = mkbranch(%s[k], pat)' % (sts[0][0].line, kind, len(sts), want, want))
    # bol_needed set whenever the production runs
    n += 1
    x = bn[0]
    deps = cs.deps(bol_label, x.blk)
    other = [ir.loc_str(l) for br, t in deps for d, l in flow.cond_loads(f, br) if l != ('global', 'bol_needed')]
    if x.ops[0][0] != 'int' or x.ops[0][1] == 0 or other:
        rep.fail('C06.R1', 'C06.R1:parse.y:caret-rule:bol_needed', where(x), "bol_needed is not set unconditionally by the '^' production (depends on %s)" % (', '.join(other) or 'value'))
    else:
        rep.ok('C06.R1', "parse.y:%s '^' production sets bol_needed (guarded only by !bol_needed)" % x.line)
    # ntod: scbol[] contributes to even start states only
    g = P.fn('ntod')
    if g is None: rep.broken('C06.R1: ntod not found')
    gc = P.cfg(g, cut=False)
    lds = [x for x in g.ins if x.op == 'load' and array_elem(g, x.ops[0], 'scbol') is not None]
    if not lds: rep.broken('C06.R1: ntod does not read scbol[]')
    for x in lds:
        n += 1
        okp = False
        for br, t in gc.control_deps_closure(x.blk):
            con = S.edge_constraint(g, br, t.name)
            if con is None: continue
            sa, sb = esig(g, con[1]), esig(g, con[2])
            if sa[0] == 'srem' and sa[2] == ('c', 2) and ((con[0] == 'ne' and sb == ('c', 1)) or (con[0] == 'eq' and sb == ('c', 0))): okp = True
        if okp: rep.ok('C06.R1', 'dfa.c:%s ntod reads scbol[] only when the start-state number is even (beginning-of-line state)' % x.line)
        else: rep.fail('C06.R1', 'C06.R1:dfa.c:ntod:scbol-parity', where(x), "ntod adds scbol[] to a start state that is not a beginning-of-line state ('^' rules would match in mid-line)")
    return n

# ---------------------------------------------------------------- R3 (generator)

def sym_epsilon(rep, P):
    f = P.fn('mkstate')
    if f is None: rep.broken('C06.R3: mkstate not found')
    cfg = P.cfg(f, cut=False)
    for x in f.ins:
        if x.op == 'store' and x.ops[1] == ('glob', 'numeps'):
            for br, t in cfg.control_deps(x.blk):
                con = S.edge_constraint(f, br, t.name)
                if con and con[0] == 'eq' and con[2][0] == 'int': return con[2][1]
    rep.broken('C06.R3: cannot read SYM_EPSILON from mkstate (the test that counts numeps)')

def r3(ctx):
    rep = ctx.rep; P = ctx.flex
    f = P.fn('yyparse'); cs = Cases(P, f); cfg = cs.cfg
    EPS = sym_epsilon(rep, P)
    nl = [c for c in f.ins if c.op == 'call' and c.callee == 'mkstate' and c.ops and c.ops[0] == ('int', NL)]
    if len(nl) != 1: rep.broken("C06.R3: expected one mkstate('\\n') call in yyparse, found %d" % len(nl))
    c = nl[0]; lab = cs.label_of(c.blk)
    if lab is None: rep.broken("C06.R3: mkstate('\\n') is not inside a grammar action")
    key = 'C06.R3:parse.y:dollar'
    probs = []
    # link_machines(eps, mkstate('\n')) with eps = mkstate(SYM_EPSILON) from this action, result linked behind $1
    nlv = copies_of(f, c.res)
    use = [u for u in cs.ins(lab) if u.op == 'call' and u.callee == 'link_machines' and any(o[0] == 'reg' and o[1] in nlv for o in u.ops)]
    if len(use) != 1 or not (use[0].ops[1][0] == 'reg' and use[0].ops[1][1] in nlv):
        probs.append((c, "mkstate('\\n') is not the second machine of a link_machines call"))
    else:
        inner = use[0]
        def origin(v, at):
            """value v at instruction `at`: follow loads to the nearest dominating store inside this action"""
            for _ in range(6):
                d = f.def_of(v)
                if d is None or d.op != 'load': return d
                sig = esig(f, d.ops[0])
                sts = [y for y in cs.ins(lab) if y.op == 'store' and esig(f, y.ops[1]) == sig and (cfg.dominates(y.blk, at.blk) and (y.blk is not at.blk or y.idx < at.idx))]
                if not sts: return d
                last = [y for y in sts if not any(z is not y and cfg.dominates(y.blk, z.blk) and (z.blk is not y.blk or z.idx > y.idx) for z in sts)]
                v = last[0].ops[0]
            return f.def_of(v)
        src = origin(inner.ops[0], inner)
        if src is None or src.op != 'call' or src.callee != 'mkstate' or src.ops[0] != ('int', EPS):
            probs.append((inner, "the newline state is not linked behind an epsilon state created in this action"))
        tl = copies_of(f, inner.res)
        outer = [u for u in cs.ins(lab) if u.op == 'call' and u.callee == 'link_machines' and u.ops[1][0] == 'reg' and u.ops[1][1] in tl]
        if not outer: probs.append((inner, 'the (epsilon, newline) machine is not appended to the rule body'))
    def const_store(name, want):
        st = [y for y in cs.ins(lab) if y.op == 'store' and y.ops[1] == ('glob', name)]
        good = [y for y in st if y.ops[0] == ('int', want) and cfg.dominates(y.blk, c.blk)]
        bad_after = [y for y in st if y.ops[0] != ('int', want)]
        if not good or bad_after: probs.append((st[0] if st else c, '%s is not set to %d in the production for $' % (name, want)))
    const_store('headcnt', 0); const_store('trailcnt', 1); const_store('rulelen', 1); const_store('trlcontxt', 1)
    if probs: rep.fail('C06.R3', key, where(probs[0][0]), "re '$': " + probs[0][1])
    else: rep.ok('C06.R3', "parse.y:%s re '$': link_machines(re, link_machines(mkstate(%d), mkstate('\\n'))), headcnt=0 trailcnt=1 rulelen=1 trlcontxt=1" % (c.line, EPS))
    return 1

# ---------------------------------------------------------------- R6 (generator)

def r6(ctx):
    """A rule that follows a `|` action is forced to variable trailing context (the yytext adjustment must then happen before the
    action switch, not inside the shared action).  The consumers decide "variable" as varlength && headcnt == 0, so wherever a
    grammar action sets varlength because previous_continued_action is set, headcnt must be 0 when the action ends: a store
    headcnt = 0 in the same action either dominates the forcing store or lies on every path from it to the end of the action."""
    rep = ctx.rep; P = ctx.flex
    f = P.fn('yyparse'); cs = Cases(P, f); cfg = cs.cfg
    n = 0
    for x in f.ins:
        if x.op != 'store' or x.ops[1] != ('glob', 'varlength') or x.ops[0][0] != 'int' or x.ops[0][1] == 0: continue
        label = cs.label_of(x.blk)
        if label is None: continue
        forced = False
        for br, t in cs.deps(label, x.blk):
            con = S.edge_constraint(f, br, t.name)
            if con and con[0] == 'ne' and con[2] == ('int', 0) and esig(f, S.strip_ext(f, con[1])) == ('ld', ('g', 'previous_continued_action')): forced = True
        if not forced: continue
        n += 1
        key = 'C06.R6:parse.y:continued-action:headcnt'
        zeros = [y for y in cs.ins(label) if y.op == 'store' and y.ops[1] == ('glob', 'headcnt') and y.ops[0] == ('int', 0)]
        others = [y for y in cs.ins(label) if y.op == 'store' and y.ops[1] == ('glob', 'headcnt') and y.ops[0] != ('int', 0)]
        before = [y for y in zeros if cfg.ins_dominates(y, x) and y is not x]
        escapes = [y for y in cfg.reach(x, avoid=zeros) if not cs.in_region(label, y.blk)]
        spoiled = [y for y in others if any(y in cfg.reach(z) for z in zeros)]
        if (not before and escapes) or spoiled:
            rep.fail('C06.R6', key, where(x), 'a rule after a | action is made variable-length (varlength = true under previous_continued_action) but headcnt is not forced to 0 in the same '
                     'action: the rule is then classified as fixed trailing context and its yytext adjustment is emitted inside the action shared with the preceding | rules',
                     replay_input='%%\nabc |\nab/c { return 1; }\n%%\n-- input "abc": yytext must be "abc", not "a"')
        else:
            rep.ok('C06.R6', 'parse.y:%s varlength forced by previous_continued_action, headcnt = 0 %s' % (x.line, 'set earlier in the action' if before else 'on every path to the end of the action'))
    if n == 0: rep.broken('C06.R6: no grammar action sets varlength under previous_continued_action')
    return n

# ---------------------------------------------------------------- R2 (scanner variants)

ALLOWED_WRITERS = {
    'yylex': 'rule set-up (YY_RULE_SETUP) and the user-visible yysetbol/yy_set_bol macros',
    'rule_check_bol': 'rule set-up of the c99/go back ends',
    'yyinput': 'flag follows the byte handed to the user',
    'yy_flush_buffer': 'new input starts at the beginning of a line',
    'yy_scan_buffer': 'new in-memory buffer starts at the beginning of a line',
    'yysetbol': 'documented user entry point (c99/go: a function)',
}

def bol_stores(sc, fn):
    res = ir.Resolver(fn)
    return [x for x in fn.ins if x.op == 'store' and sc.is_buf(res.loc(x.ops[1]), 'yyatbol')]

def reads_bol(sc, fn, seen=None):
    """fn reads the flag directly or through yyatbol()"""
    res = ir.Resolver(fn)
    for x in fn.ins:
        if x.op == 'load' and sc.is_buf(res.loc(x.ops[0]), 'yyatbol'): return True
        if x.op in ('call', 'invoke') and sc.callee(x) == 'yyatbol': return True
    return False

def nl_compare_of(fn, v):
    """v is (zext of) icmp eq X, '\\n' : returns X else None"""
    v = S.strip_ext(fn, v)
    d = fn.def_of(v)
    if d is None or d.op != 'icmp' or d.pred != 'eq': return None
    if d.ops[1] == ('int', NL): return d.ops[0]
    if d.ops[0] == ('int', NL): return d.ops[1]
    return None

def setup_stores(sc, fn):
    """stores of the flag in fn that have the right value (last byte of the token == '\\n'); returns (good guards, problems)"""
    r = ir.Resolver(fn); c = sc.prog.cfg(fn, cut=False); good = []; probs = []
    for x in bol_stores(sc, fn):
        X = nl_compare_of(fn, x.ops[0])
        ok = False
        if X is not None:
            d = fn.def_of(S.strip_ext(fn, X))
            if d is not None and d.op == 'load':
                l = r.loc(d.ops[0])
                # yytext[...] : element of the array yytext points to (%pointer) or of the array yytext itself (%array)
                is_text = l[0] == 'elem' and (sc.is_var(l[1], 'yytext') or (l[1][0] == 'deref' and sc.is_var(l[1][1], 'yytext')))
                g = fn.def_of(d.ops[0])
                idx = None
                if g is not None and g.op == 'getelementptr':
                    idx = S.affine(fn, g.ops[-1], lambda val: (lambda dd: dd is not None and dd.op == 'load' and sc.is_var(r.loc(dd.ops[0]), 'yyleng'))(fn.def_of(val)))
                if is_text and idx is not None and idx[1] == -1: ok = True
        if not ok:
            probs.append((x, 'the rule set-up stores a value other than (yytext[yyleng - 1] == \'\\n\') into the beginning-of-line flag')); continue
        if not sc.via_current(r.loc(x.ops[1])):
            probs.append((x, 'the rule set-up updates the flag of a buffer other than the current one')); continue
        # guard: yyleng > 0
        gs = []
        for br, t in c.control_deps(x.blk):
            con = S.edge_constraint(fn, br, t.name)
            lb = S.lower_bound(fn, con, lambda val: (lambda dd: dd is not None and dd.op == 'load' and sc.is_var(r.loc(dd.ops[0]), 'yyleng'))(fn.def_of(val)))
            if lb == 1: gs.append(br)
            else: probs.append((br, 'the flag store in the rule set-up is guarded by something other than yyleng > 0'))
        good.append((x, gs))
    return good, probs

def r2(ctx, sc):
    rep = ctx.rep; v = sc.v
    lex = sc.fns('yylex')
    lex = [f for f in lex if len(f.blocks) > 20]
    if not lex: return 0
    yylex = lex[0]
    needs = reads_bol(sc, yylex)
    if not needs:
        if 'bol' in v.feats: rep.broken('C06.R2: variant %s has a ^ rule but yylex does not read yyatbol' % v.name)
        return 0
    n = 0
    # ---- who writes
    for f in sc.mod.functions.values():
        st = bol_stores(sc, f)
        c = sc.canon(f)
        if st and c not in ALLOWED_WRITERS:
            rep.fail('C06.R2', sc.key('C06.R2', c, 'writes-yyatbol'), where(st[0]), '%s writes the beginning-of-line flag; only the rule set-up, yyinput, yy_flush_buffer, yy_scan_buffer and yysetbol may [variant %s]' % (c, v.name), variant=v.describe())
    # ---- rule set-up before every user action
    sw = action_switch(yylex)
    EOB, _ = eob_constant(sc, yylex)
    if sw is None or EOB is None: rep.broken('C06.R2: action switch / YY_END_OF_BUFFER not found in yylex of %s' % v.name)
    cfg = sc.prog.cfg(yylex); res = ir.Resolver(yylex)
    setups = []      # instructions that constitute "the rule set-up ran": guard branches of the flag store, or calls of rule_check_bol
    def check_setup_fn(fn): return setup_stores(sc, fn)
    if sc.backend in ('c99', 'go'):
        h = sc.fn('rule_check_bol')
        if h is None: rep.broken('C06.R2: rule_check_bol missing in %s' % v.name)
        good, probs = check_setup_fn(h)
        hc = sc.prog.cfg(h)
        n += 1
        if probs or not good:
            x, msg = probs[0] if probs else (h.entry.ins[0], 'rule_check_bol does not store the flag')
            rep.fail('C06.R2', sc.key('C06.R2', 'rule_check_bol', 'value'), where(x), msg + ' [variant %s]' % v.name, variant=v.describe())
        else:
            # every path through the helper either stores or takes the yyleng <= 0 edge
            x, gs = good[0]
            if any(y.op == 'ret' for y in S.entry_reach(hc, h, avoid=[x] + gs)):
                rep.fail('C06.R2', sc.key('C06.R2', 'rule_check_bol', 'skips'), where(x), 'rule_check_bol can return without updating the flag for a non-empty token [variant %s]' % v.name, variant=v.describe())
            else:
                rep.ok('C06.R2', '%s rule_check_bol: flag := (yytext[yyleng-1] == \'\\n\') under yyleng > 0' % v.name)
        setups = sc.calls(yylex, 'rule_check_bol')
    else:
        # stores of another shape inside yylex are not rule set-ups (the user-visible yy_set_bol()/yysetbol() macros expand there);
        # an arm whose set-up has the wrong shape is reported below as an arm without set-up
        good, probs = check_setup_fn(yylex)
        for x, gs in good:
            setups += (gs or [x])
    rule_cases = sorted({c for c, l in sw.cases if 1 <= c < EOB})
    if not rule_cases: rep.broken('C06.R2: no rule arms in the action switch of %s' % v.name)
    by_label = {}
    for c, l in sw.cases:
        if 1 <= c < EOB: by_label.setdefault(l, []).append(c)
    for l, cases in sorted(by_label.items(), key=lambda kv: kv[1]):
        n += 1
        # (#line directives attribute the skeleton prelude of later arms to the user's file, so user code cannot be told apart by
        #  location; instead: without passing the set-up the arm can neither return nor get back to the action switch)
        r_ = cfg.reach_from_block(yylex.bmap[l], avoid=setups)
        bad = [y for y in r_ if y.op == 'ret' or y is sw]
        if bad:
            rep.fail('C06.R2', sc.key('C06.R2', 'yylex', 'rule-arm-without-setup'), where(bad[0]),
                     'the arm for rule %d can complete (return / next token) without the beginning-of-line update of the rule set-up [variant %s]' % (cases[0], v.name), variant=v.describe())
        else:
            rep.ok('C06.R2', '%s yylex rule %d: set-up precedes the user action' % (v.name, cases[0]))
    # ---- yyinput
    for f in sc.fns('yyinput'):
        n += 1
        c = sc.prog.cfg(f); r = ir.Resolver(f)
        st = [x for x in bol_stores(sc, f)]
        key = sc.key('C06.R2', 'yyinput', 'flag')
        # returns of a byte: stores of a non-constant, non-call value into the return slot
        rets = []
        for x in f.ins:
            if x.op == 'store' and x.ops[1] == ('reg', 'retval') and x.ops[0][0] == 'reg':
                d = f.def_of(S.strip_ext(f, x.ops[0]))
                if d is not None and d.op == 'load' and f.def_of(d.ops[0]) is not None and f.def_of(d.ops[0]).op == 'alloca':
                    rets.append((x, d.ops[0]))
        if not rets:
            for x in f.ins:
                if x.op == 'ret' and x.ops and x.ops[0][0] == 'reg':
                    d = f.def_of(S.strip_ext(f, x.ops[0]))
                    if d is not None and d.op == 'load' and f.def_of(d.ops[0]) is not None and f.def_of(d.ops[0]).op == 'alloca' and d.ops[0] != ('reg', 'retval'):
                        rets.append((x, d.ops[0]))
        if not rets: rep.broken('C06.R2: no byte-returning path found in yyinput of %s' % v.name)
        goodst = []
        for x in st:
            X = nl_compare_of(f, x.ops[0])
            d = f.def_of(S.strip_ext(f, X)) if X is not None else None
            if d is not None and d.op == 'load' and any(d.ops[0] == slot for _, slot in rets) and sc.via_current(r.loc(x.ops[1])): goodst.append(x)
        if not goodst:
            rep.fail('C06.R2', key, fwhere(f), 'yyinput does not set the beginning-of-line flag of the current buffer from the byte it returns [variant %s]' % v.name, variant=v.describe()); continue
        missing = [x for x, _ in rets if x in S.entry_reach(c, f, avoid=goodst)]
        if missing:
            rep.fail('C06.R2', key, where(missing[0]), 'yyinput can return a byte without updating the beginning-of-line flag [variant %s]' % v.name, variant=v.describe())
        else:
            rep.ok('C06.R2', "%s yyinput: flag := (c == '\\n') on every path that returns c" % v.name)
    # ---- flush / scan_buffer
    for canon in ('yy_flush_buffer', 'yy_scan_buffer'):
        for f in sc.fns(canon):
            n += 1
            c = sc.prog.cfg(f); r = ir.Resolver(f)
            st = [x for x in bol_stores(sc, f) if x.ops[0][0] == 'int' and x.ops[0][1] != 0]
            key = sc.key('C06.R2', canon, 'flag')
            if not st:
                rep.fail('C06.R2', key, fwhere(f), '%s does not set the beginning-of-line flag of the buffer to 1 [variant %s]' % (canon, v.name), variant=v.describe()); continue
            if canon == 'yy_flush_buffer':
                p = f.params[1 if sc.backend == 'cxx' else 0][1]
                nulls = set()
                for b in f.blocks:
                    bn = flow.branch_on_null(f, b.ins[-1]) if b.ins[-1].op == 'br' else None
                    if bn is None: continue
                    d = f.def_of(flow.strip_casts(f, bn[0]))
                    if d is not None and d.op == 'load' and r.loc(d.ops[0]) == ('local', p + '.addr'): nulls.add((b, f.bmap[bn[1]]))
                ef = lambda a, b: (a, b) not in nulls
                bad = [y for y in S.entry_reach(c, f, avoid=st, edge_filter=ef) if y.op == 'ret']
            else:
                # every path that returns the new buffer (non-null return)
                bad = []
                for y in f.ins:
                    if y.op == 'store' and y.ops[1] == ('reg', 'retval') and y.ops[0] != ('null',) and y in S.entry_reach(c, f, avoid=st): bad.append(y)
            if bad: rep.fail('C06.R2', key, where(bad[0]), '%s can finish without setting the beginning-of-line flag [variant %s]' % (canon, v.name), variant=v.describe())
            else: rep.ok('C06.R2', '%s %s: flag := 1 on every path that (re)initialises the buffer' % (v.name, canon))
    return n

# ---------------------------------------------------------------- R8 (scanner variants with %option pre-action)

PRE_MARK = 'verif_pre'

def preaction_variants(ctx):
    """own probes: the core list has no %option pre-action.  The pre-action is a call of an undefined function, which names
    the user's code in the IR of every back end (nothing is linked or run)."""
    vs = []
    for b in variants.BACKENDS:
        opts = ['pre-action="%s();"' % PRE_MARK]
        head, sep, tail = variants.probe(b, variants.NOREJ, opts).partition('\n%%\n')
        spec = head + '\n%{\nextern void ' + PRE_MARK + '(void);    /* names the pre-action in the IR; never defined, nothing is linked or run */\n%}' + sep + tail
        vs.append(variants.Variant('c06_pre_%s' % b, b, variants.NOREJ, opts, raw_spec=spec))
    variants.instantiate(ctx.art, vs, 'c06')
    for v in vs:
        if v.ll is None:
            ctx.rep.broken('own pre-action probe %s did not instantiate/compile: %s' % (v.name, (v.stderr or getattr(v, 'll_err', ''))[-300:]))
    return vs

def r8(ctx, sc):
    """R8: the rule set-up updates the beginning-of-line flag BEFORE it runs the user's %option pre-action code: in every rule arm
    of yylex no pre-action code is reachable from the head of the arm without passing the set-up (the guard `yyleng > 0` of the
    flag store / the call of rule_check_bol).  Otherwise a yysetbol() made by the pre-action is overwritten at once, and a
    pre-action that leaves the arm early (break / return) leaves the flag of the previous token in place."""
    rep = ctx.rep; v = sc.v
    lex = [f for f in sc.fns('yylex') if len(f.blocks) > 20]
    if not lex: rep.broken('C06.R8: no yylex in probe %s' % v.name)
    yylex = lex[0]
    sw = action_switch(yylex); EOB, _ = eob_constant(sc, yylex)
    if sw is None or EOB is None: rep.broken('C06.R8: action switch / YY_END_OF_BUFFER not found in yylex of %s' % v.name)
    if not reads_bol(sc, yylex): rep.broken('C06.R8: probe %s has a ^ rule but yylex does not read yyatbol' % v.name)
    cfg = sc.prog.cfg(yylex); dcfg = sc.prog.cfg(yylex, cut=False)
    if sc.backend in ('c99', 'go'):
        setups = sc.calls(yylex, 'rule_check_bol')          # (its body: C06.R2)
    else:
        setups = []
        for x, gs in setup_stores(sc, yylex)[0]: setups += (gs or [x])
    marks = sc.calls(yylex, PRE_MARK)
    if not marks:
        # flex accepted %option pre-action and produced a scanner that compiles, but the code is in no rule arm: the option
        # is silently without effect in a scanner that has ^ rules (the set-up macro carries both the BOL update and the pre-action)
        rep.fail('C06.R8', 'C06.R8:%s:yylex:pre-action-dropped-with-bol-rules' % sc.skel, fwhere(yylex),
                 'the %%option pre-action code of probe %s is called in no rule arm of yylex although the scanner was generated without complaint: '
                 'with a ^ rule in the scanner the rule set-up performs only the beginning-of-line update' % v.name, variant=v.describe())
        return 1
    by_label = {}
    for c, l in sw.cases:
        if 1 <= c < EOB: by_label.setdefault(l, []).append(c)
    n = 0
    for l, cases in sorted(by_label.items(), key=lambda kv: kv[1]):
        armb = yylex.bmap[l]
        mine = [m for m in marks if dcfg.dominates(armb, m.blk)]
        if not mine: rep.broken('C06.R8: rule arm %d of probe %s does not contain the pre-action' % (cases[0], v.name))
        n += 1
        early = [m for m in mine if m in cfg.reach_from_block(armb, avoid=setups)]
        if early:
            rep.fail('C06.R8', sc.key('C06.R8', 'yylex', 'pre-action-before-bol-update'), where(early[0]),
                     'in the arm of rule %d the user\'s %%option pre-action code runs before the rule set-up has updated the beginning-of-line flag from the last character '
                     'of the token: a yysetbol() made there is overwritten, and a pre-action that leaves the arm (break / return) keeps the flag of the previous token '
                     '[variant %s]' % (cases[0], v.name), variant=v.describe(),
                     replay_input='%option pre-action="if (yy_act == 2) yysetbol(true);"\n%%\n^cmd  { puts("CMD"); }\n;  { }\n[a-z]+ { puts("word"); }\n.|\\n { }\n%%\n-- input "cmd a;cmd b": CMD must be printed twice')
        else:
            rep.ok('C06.R8', '%s yylex rule %d: the beginning-of-line update precedes the pre-action@%s' % (v.name, cases[0], mine[0].line))
    return n

# ---------------------------------------------------------------- driver

def run(ctx):
    rep = ctx.rep
    n1 = r1(ctx)
    n3 = r3(ctx)
    r6(ctx)
    # R7: the generator's "dangerous trailing context" diagnosis examines every NFA state and every accepting number of the
    # DFA state it is given (loops over (array, count) parameter pairs cover exactly the array)
    import genutil
    ctc = ctx.flex.fn('check_trailing_context')
    if ctc is None: rep.broken('check_trailing_context() not found in flex')
    genutil.rule_param_array_loops(rep, ctx.flex, 'C06.R7', [ctc])
    vs = ctx.variants()
    rep.require(len(vs) >= 100, 'only %d scanner variants compiled to IR' % len(vs))
    n2 = 0; used = 0; backs = set()
    for v in vs:
        k = r2(ctx, scanner(v))
        if k: used += 1; backs.add(v.backend)
        n2 += k
    rep.require(backs >= {'nr', 'r', 'cxx', 'c99', 'go'}, 'C06.R2 ran only on back ends %s' % sorted(backs))
    n8 = sum(r8(ctx, scanner(v)) for v in preaction_variants(ctx))
    rep.setcount('pre_action_probe_arms', n8)
    rep.setcount('variants_with_bol_rules', used)
    rep.setcount('variants_analysed', len(vs))
    rep.floor('C06.R1', 4, "two productions, bol_needed, ntod's one read of scbol[]")
    rep.floor('C06.R2', 1200, '>=17 rule arms + yyinput + flush + scan_buffer in each of >=60 variants with ^ rules')
    rep.floor('C06.R3', 1, "the re '$' production")
    rep.floor('C06.R8', 90, '>=18 rule arms in each of the five pre-action probes (one per back end)')
    rep.floor('C06.R7', 2, 'the two loops of check_trailing_context')
    rep.floor('C06.R6', 2, "the productions 're2 re' and re '$' force varlength after a | action")
    rep.undecided += ['the split between head and trailing context of a match (value-level: headcnt/trailcnt arithmetic and the DFA)',
                      'competition between anchored and unanchored rules (C01)',
                      'user code that sets the flag through yysetbol()/yy_set_bol()',
                      'unput(): the flag is deliberately not recomputed by yyunput (documented: yy_set_bol is the user\'s tool)']
    rep.assumptions += ['clang -O0 IR of the instantiated skeleton is a faithful rendering of the generated source',
                        'bison action code is reached only through the action switch of yyparse']
    import tbl
    tbl.rule_language(ctx, 'C06.R4', probes=('anchors', 'sc'), what="'^' rules only at beginning of line, '$' and r/s competing with the length of r followed by s")
    rep.floor('C06.R4', 18, 'language probes x table representations')
    import act_tbl
    act_tbl.trail_rule(ctx, rep, 'C06.R5')
    rep.floor('C06.R5', 60, 'rules of the five trailing-context probes x 2 table options (34 rules each)')
    import macro_hygiene
    macro_hygiene.check(ctx, 'C06.R9', {'yysetbol', 'yy_set_bol'}, ['yysetbol'])
    rep.floor('C06.R9', 3, 'yysetbol()/yy_set_bol() in the nr, r and C++ instantiation of the cpp skeleton')
    return rep.finish('other',
        "Generator side: the IR of parse.c is partitioned into grammar actions (blocks dominated by a case label of bison's action switch); the action that "
        "sets bol_needed must distribute into scbol[] only and every other into scset[] only, and ntod must read scbol[] under an even start-state number.  "
        "Scanner side, %d variants whose start-state computation reads the beginning-of-line flag: who-may-write over all functions, must-pass-through of the "
        "rule set-up on every path from each of the rule arms of the action switch to user code, value shape of the stores (last byte of token / returned byte "
        "compared with newline; constant 1), must-store before every byte-returning exit of yyinput and every exit of flush / scan_buffer." % used)
