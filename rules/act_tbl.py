"""Translation-validation style rules on the *action switch* of generated probe scanners (nothing is run):

C10.R6  the end-of-file arm of every start condition leads to the <<EOF>> action the rule text assigns to it (own rule,
        else the first unqualified/<*> rule that precedes..., else the default yyterminate()).
C06.R5  the yytext adjustment emitted in front of a trailing-context rule's action is the one the rule text calls for:
        yy_bp + |head| for a fixed-length head, yy_cp - |trail| for a fixed-length trail, none for a rule made variable by a
        preceding '|' action or with variable head and trail.
"""
import re
import ir, lex, variants, tbl
import c19

EOF_PROBES = {
 'own+unq': r'''
%x XA XB
%s SI
%%
<XA><<EOF>>   { return 13; }
<<EOF>>       { return 99; }
a             { return 1; }
<XA,XB>b      { return 2; }
%%
''',
 'scoped': r'''
%x XA XB
%s SI
%%
<XA,SI><<EOF>>  { return 21; }
<XB>{
  <<EOF>>       { return 22; }
  c             { return 3; }
}
a               { return 1; }
%%
''',
 'unqonly': r'''
%x XA
%s SI
%%
a             { return 1; }
<<EOF>>       { return 31; }
<XA>b         { return 2; }
%%
''',
 'star': r'''
%x XA XB
%%
<XB><<EOF>>   { return 41; }
<*><<EOF>>    { return 42; }
a             { return 1; }
%%
''',
 'none': r'''
%x XA
%%
a             { return 1; }
<XA>b         { return 2; }
%%
''',
 # a further unqualified <<EOF>> rule when every start condition has one: flex warns; the rule is unreachable
 'redundant': r'''
%x XA
%%
a             { return 1; }
<XA><<EOF>>   { return 51; }
<<EOF>>       { return 52; }
<<EOF>>       { return 53; }
b             { return 2; }
%%
''',
}

TRAIL_PROBES = {
 'fixed': r'''
%%
ab/cd         { return 1; }
q/7           { return 2; }
[0-9]+/x      { return 3; }
xy$           { return 4; }
[a-c]{2}/[d-f]+ { return 5; }
z+/"!!"       { return 6; }
.|\n          { }
%%
''',
 'contd': r'''
%%
abc           |
ab/c          { return 1; }
q/7           { return 2; }
mn/op         |
k             { return 3; }
r/st          { return 4; }
.|\n          { }
%%
''',
 'posix': r'''
%option posix-compat
%%
ab{3}/c       { return 1; }
[0-9]+/xy{2}  { return 2; }
q/7           { return 3; }
k{2}/m        { return 4; }
.|\n          { }
%%
''',
 # every construct that adds to the rule length (parse.y: '.', a character class, a character, a character inside a quoted
 # string; PREVCCL is never returned by scan.l) occurs in the fixed part of a trailing-context rule AND in an earlier rule
 # of the same file, so that bookkeeping done only on first use (the one-time set-up of the '.' classes) shows
 'twice': r'''
%%
#.*\n         { return 1; }
[a-c]x"yz"    { return 2; }
ab./cd        { return 3; }
[0-9]+/.;     { return 4; }
k[a-c]/[d-f]+ { return 5; }
m[x-z]./n+    { return 6; }
p+/[x-z]q     { return 7; }
"uv"w/"st"+   { return 8; }
r+/"!."       { return 9; }
g+/..         { return 10; }
.|\n          { }
%%
''',
 'vari': r'''
%%
p+/r+         { return 1; }
q/7           { return 2; }
[0-9]+/x      { return 3; }
.|\n          { }
%%
''',
}

def fixed_len(ast):
    k = ast[0]
    if k == 'set': return 1
    if k == 'cat':
        n = 0
        for x in ast[1]:
            l = fixed_len(x)
            if l is None: return None
            n += l
        return n
    if k == 'alt':
        ls = {fixed_len(x) for x in ast[1]}
        return ls.pop() if len(ls) == 1 and None not in ls else None
    if k == 'star': return None
    return None

def action_switch(fn):
    sws = [x for x in fn.ins if x.op == 'switch']
    return max(sws, key=lambda x: len(x.cases)) if sws else None

def returned_constant(prog, fn, blk):
    """constant returned by the code starting at blk (follows the action to its `return K`); None if not a constant"""
    sw = action_switch(fn)
    others = {fn.bmap[lab] for cv, lab in sw.cases}
    ev = c19.RegionEval(prog, fn, {}, lambda b, st: b.name.startswith('sw.epilog'))      # fall-through into a shared arm is followed
    try: ev.run(blk)
    except c19.Unknown: return None
    vals = ev.effects.get('retval')
    if not vals: return None
    vs = {v for v in vals if isinstance(v, int)}
    return vs.pop() if len(vs) == 1 else None

def eof_rule(ctx, rep, rule='C10.R6'):
    vs = []
    for name, body in EOF_PROBES.items():
        for tag, opts in (('nr', ['noyywrap']), ('Cf', ['noyywrap', 'full'])):
            spec = ''.join('%%option %s\n' % o for o in opts) + body.lstrip('\n')
            vs.append(variants.Variant('eof_%s_%s' % (name.replace('+', ''), tag), 'nr', (), opts, raw_spec=spec))
    variants.instantiate(ctx.art, vs, 'eofmap')
    n = 0
    for v in vs:
        if v.ll is None and not (v.crashed or v.refused) and v.ll_err:
            rep.fail(rule, '%s:eof-arm:%s:scanner-does-not-compile' % (rule, v.name.split('_')[1]), v.name,
                     'flex accepted the <<EOF>> rules of this probe (exit 0) but the generated scanner does not compile: %s' % v.ll_err.strip().split('\n')[0][-200:],
                     replay_input=v.spec(), variant=v.describe())
            continue
        if v.ll is None: rep.broken('%s: probe %s not generated: %s' % (rule, v.name, (v.stderr or v.ll_err)[-160:]))
        mod = variants.module(v); prog = variants.program(v)
        fn = mod.functions.get('yylex'); sw = action_switch(fn)
        sp = lex.parse_spec(v.spec())
        d = tbl.defines(open(v.src, errors='replace').read())
        eob = d.get('YY_END_OF_BUFFER')
        if eob is None: rep.broken('%s: YY_END_OF_BUFFER not found in %s' % (rule, v.name))
        # expected: rules in file order; each <<EOF>> rule covers its listed conditions, or every condition when unqualified / <*>;
        # a condition keeps the first rule that covers it
        expect = {}
        for r in sp.rules:
            if not r.is_eof: continue
            m = re.search(r'return\s+(\d+)', r.action)
            val = int(m.group(1)) if m else None
            cover = sp.sc_order if (not r.scs or r.scs == ['*']) else r.scs
            for sc in cover:
                expect.setdefault(sc, val)
        probe = v.name.split('_')[1]
        for sci, sc in enumerate(sp.sc_order):
            n += 1
            want = expect.get(sc, 0)
            tgt = [lab for cv, lab in sw.cases if cv == eob + sci + 1]
            key = '%s:eof-arm:%s:%s' % (rule, probe, sc)
            if not tgt:
                rep.fail(rule, key + ':missing', v.name, 'the action switch of yylex has no end-of-file arm for start condition %s' % sc, replay_input=v.spec(), variant=v.describe()); continue
            got = returned_constant(prog, fn, fn.bmap[tgt[0]])
            if got == want:
                rep.ok(rule, '%s: end of file in <%s> runs the action returning %d (%s)' % (v.name, sc, want, 'its own or the covering <<EOF>> rule' if sc in expect else 'default yyterminate()'))
            else:
                rep.fail(rule, key, v.name, 'end of file in start condition %s runs an action returning %s; the rule text assigns it the <<EOF>> action returning %s' % (sc, got, want),
                         replay_input=v.spec(), variant=v.describe())
    return n

def adjust_of(fn, blk, res):
    """('bp'|'cp', delta) of the first store to the scan register yy_c_buf_p in the straight-line start of a case, else None"""
    cur = blk; seen = 0
    while cur is not None and seen < 4:
        seen += 1
        for x in cur.ins:
            if x.op == 'store':
                l = res.loc(x.ops[1])
                if l == ('global', 'yy_c_buf_p'):
                    d = fn.def_of(x.ops[0])
                    if d is not None and d.op == 'getelementptr' and len(d.ops) == 2 and d.ops[1][0] == 'int':
                        b = fn.def_of(d.ops[0])
                        if b is not None and b.op == 'load':
                            bl = res.loc(b.ops[0])
                            if bl[0] == 'local': return (bl[1], d.ops[1][1])
                    if d is not None and d.op == 'load':
                        bl = res.loc(d.ops[0])
                        if bl[0] == 'local': return (bl[1], 0)
                    return ('?', None)
            if x.op in ('call', 'ret'): return None
        cur = cur.succ[0] if len(cur.succ) == 1 else None
    return None

def trail_rule(ctx, rep, rule='C06.R5'):
    vs = []
    for name, body in TRAIL_PROBES.items():
        for tag, opts in (('nr', ['noyywrap']), ('C', ['noyywrap', 'noecs', 'nometa-ecs'])):
            spec = ''.join('%%option %s\n' % o for o in opts) + body.lstrip('\n')
            vs.append(variants.Variant('trail_%s_%s' % (name, tag), 'nr', (), opts, raw_spec=spec))
    variants.instantiate(ctx.art, vs, 'trailmap')
    n = 0
    for v in vs:
        if v.ll is None: rep.broken('%s: probe %s not generated: %s' % (rule, v.name, (v.stderr or v.ll_err)[-160:]))
        mod = variants.module(v)
        fn = mod.functions.get('yylex'); sw = action_switch(fn); res = ir.Resolver(fn)
        # the token-start local is the one copied into yytext_ptr by YY_DO_BEFORE_ACTION
        bp = None
        for x in fn.ins:
            if x.op == 'store' and res.loc(x.ops[1]) == ('global', 'yytext') or x.op == 'store' and res.loc(x.ops[1]) == ('global', 'yytext_ptr'):
                d = fn.def_of(x.ops[0])
                if d is not None and d.op == 'load' and res.loc(d.ops[0])[0] == 'local': bp = res.loc(d.ops[0])[1]
        if bp is None: rep.broken('%s: cannot identify the token-start local in %s' % (rule, v.name))
        sp = lex.parse_spec(v.spec())
        posix = 'posix-compat' in sp.options
        k = 0; prev_contd = False
        probe = v.name.split('_')[1]
        for r in sp.rules:
            if r.is_eof: continue
            k += 1
            a = lex.parse_pattern(r.pat, sp)
            trail = a['trail'] if a['trail'] is not None else (('set', frozenset([10])) if a['eol'] else None)
            H = fixed_len(a['head']) if trail is not None else None
            T = fixed_len(trail) if trail is not None else None
            if posix and trail is not None:
                # %option posix-compat: r{n} repeats the whole series before it ("ab{3}" is ababab) and flex treats the
                # length of such a series as unknown; the E3 model parses the flex way, so its length is not used here
                hp, _, tp = r.pat.partition('/')
                if re.search(r'\{\d', hp): H = None
                if re.search(r'\{\d', tp): T = None
            tgt = [lab for cv, lab in sw.cases if cv == k]
            if tgt:
                got = adjust_of(fn, fn.bmap[tgt[0]], res)
                if got is not None and got[0] not in ('?',): got = ('bp' if got[0] == bp else 'cp', got[1])
                n += 1
                key = '%s:adjust:%s:%s' % (rule, probe, r.pat)
                def show(x): return 'none' if x is None else ('token start + %d' % x[1] if x[0] == 'bp' else 'token end - %d' % (-x[1]) if x[1] is not None else 'unrecognised')
                if trail is None:
                    ok = got is None; why = 'a rule without trailing context must not adjust yytext'
                elif got is None:
                    # no fixed adjustment: legitimate only when the rule is handled as variable trailing context, i.e. its
                    # accepting entries in yy_acclist carry the trailing-context flag
                    al = tbl.int_array(mod, 'yy_acclist') or []
                    ok = any((e & 0x1fff) == k and (e & 0x2000) for e in al)
                    why = 'no adjustment is emitted and the rule is not marked as variable trailing context in yy_acclist'
                elif prev_contd:
                    ok = False; why = 'the rule follows a | action and must be treated as variable trailing context, but a fixed adjustment is emitted (it is applied to every rule that falls into the shared action)'
                elif got[0] == 'bp':
                    ok = H is not None and got[1] == H; why = 'the head of the rule is %s characters long' % ('not a fixed number of' if H is None else H)
                elif got[0] == 'cp':
                    ok = T is not None and got[1] == -T; why = 'the trailing context is %s characters long' % ('not a fixed number of' if T is None else T)
                else:
                    ok = False; why = 'unrecognised adjustment'
                if ok:
                    rep.ok(rule, '%s rule %d %r: yytext adjustment %s agrees with the rule text' % (v.name, k, r.pat, show(got)))
                else:
                    rep.fail(rule, key, v.name, 'rule %r: the action is preceded by the adjustment "%s": %s' % (r.pat, show(got), why), replay_input=v.spec(), variant=v.describe())
            prev_contd = r.continued
    return n
