"""C19 - every documented option has its documented effect, via CLI and %option alike (the plumbing).

R1  exhaustive option tables: flexopt_flag_t enumerators <-> flexopts[] <-> cases of flexinit's switch;
    every TOK_* returned by an <OPTION> rule has an `option` production in parse.y.
R2  (a) def-use over ctrl/env option fields; (b) every m4 symbol the option plumbing defines is referenced
    by the skeletons (strict for cpp; reviewed reference table for c99/go).
R3  the two spellings agree: the stores performed by the --name / --noname case of flexinit equal those of
    the %option action evaluated with option_sense true / false (concrete evaluation of the IR region).
R4  noyy* options omit exactly their function (variants with and without the options compared).
"""
import re, os
import ir, flow, lex, skl, variants
from common import where, fwhere

# ------------------------------------------------------------------ helpers

def enumerators(prog, enum_name):
    out = {}
    for m in prog.modules:
        for k, t in m.meta.items():
            if 'DICompositeType' in t and 'DW_TAG_enumeration_type' in t and 'name: "%s"' % enum_name in t:
                e = re.search(r'elements: !(\d+)', t)
                for mid in re.findall(r'!(\d+)', m.meta.get(int(e.group(1)), '')):
                    mm = re.match(r'!DIEnumerator\(name: "(\w+)", value: (-?\d+)', m.meta.get(int(mid), ''))
                    if mm: out[mm.group(1)] = int(mm.group(2))
                if out: return out
    return out

def flexopts_table(prog):
    """[(option string, flag value)] from the initialiser of flexopts[]"""
    for m in prog.modules:
        g = m.globals.get('flexopts')
        if g is None or g.init is None or g.init[0] != 'agg': continue
        out = []
        for mm in re.finditer(r'%struct\.optspec_t \{ i8\* (null|getelementptr inbounds \(\[\d+ x i8\], \[\d+ x i8\]\* @([\w.]+), i32 0, i32 0\)), i32 (-?\d+),', g.init[1]):
            if mm.group(2) is None: continue
            s_ = m.cstring(('glob', mm.group(2)))
            out.append((s_, int(mm.group(3))))
        return out
    return None

class Unknown(Exception): pass

class RegionEval:
    """Evaluation of a small IR region (one switch case / one scanner action) with a few concrete inputs
    (option_sense) and everything else symbolic.  A branch on a symbolic value forks; effects are the union over
    paths: {location string: set of values}.  Values: int | 'ARG' | ('sym', text) | ('str', text) | ('addr', loc)."""
    def __init__(s, prog, fn, env, stop_pred):
        s.prog = prog; s.fn = fn; s.res = ir.Resolver(fn)
        s.env = env
        s.effects = {}
        s.calls = []
        s.stop = stop_pred       # stop(block, state) -> bool
        s.steps = 0
    def lkey(s, ptr):
        return ir.loc_str(s.res.loc(ptr))
    def val(s, v, regs):
        k = v[0]
        if k == 'int': return v[1]
        if k == 'null': return 0
        if k == 'reg':
            if v[1] in regs: return regs[v[1]]
            return ('sym', '%' + v[1])
        if k in ('glob', 'cgep', 'ccast'):
            st = s.fn.mod.cstring(v)
            if st is not None: return ('str', st)
            return ('addr', ir.loc_str(s.res.loc(v)))
        return ('sym', '?')
    def run(s, blk):
        s._go(blk, None, {}, {}, {'inrange': False})
    def _go(s, blk, prev, regs, mem, st):
        while True:
            s.steps += 1
            if s.steps > 3000: raise Unknown('region too long')
            if s.stop(blk, st): return
            nxt = None
            for x in blk.ins:
                op = x.op
                if op == 'phi':
                    for v, lab in zip(x.ops, x.cases):
                        if prev is not None and lab == prev.name: regs[x.res] = s.val(v, regs)
                    continue
                if op == 'load':
                    k = s.lkey(x.ops[0])
                    if k in mem: regs[x.res] = mem[k]
                    elif k in s.env: regs[x.res] = s.env[k]
                    else: regs[x.res] = ('sym', k)
                elif op == 'store':
                    k = s.lkey(x.ops[1]); v = s.val(x.ops[0], regs)
                    mem[k] = v; s.effects.setdefault(k, set()).add(v if not isinstance(v, list) else tuple(v))
                elif op in ('trunc', 'zext', 'sext', 'bitcast', 'ptrtoint', 'inttoptr'):
                    v = s.val(x.ops[0], regs)
                    if isinstance(v, int) and op == 'trunc' and x.ty is not None and x.ty.k == 'int':
                        v &= (1 << x.ty.a) - 1
                    regs[x.res] = v
                elif op in ('xor', 'and', 'or', 'add', 'sub', 'mul'):
                    a = s.val(x.ops[0], regs); b = s.val(x.ops[1], regs)
                    if isinstance(a, int) and isinstance(b, int):
                        regs[x.res] = {'xor': a ^ b, 'and': a & b, 'or': a | b, 'add': a + b, 'sub': a - b, 'mul': a * b}[op]
                    else:
                        def t(z): return z[1] if isinstance(z, tuple) else z
                        regs[x.res] = ('sym', '(%s %s %s)' % (t(a), op, t(b)))
                elif op == 'icmp':
                    a = s.val(x.ops[0], regs); b = s.val(x.ops[1], regs)
                    if isinstance(a, int) and isinstance(b, int):
                        regs[x.res] = int({'eq': a == b, 'ne': a != b, 'sgt': a > b, 'slt': a < b, 'sge': a >= b, 'sle': a <= b, 'ugt': a > b, 'ult': a < b, 'uge': a >= b, 'ule': a <= b}[x.pred])
                    else: regs[x.res] = ('sym', 'cmp')
                elif op == 'select':
                    c = s.val(x.ops[0], regs)
                    if isinstance(c, int): regs[x.res] = s.val(x.ops[1] if c else x.ops[2], regs)
                    else: regs[x.res] = ('sym', 'select')
                elif op in ('getelementptr', 'alloca'):
                    regs[x.res] = ('addr', ir.loc_str(s.res.loc(('reg', x.res))))
                elif op in ('call', 'invoke'):
                    cal = x.callee if isinstance(x.callee, str) else '?'
                    args = [s.val(a, regs) for a in x.ops]
                    if cal in ('xstrdup', 'strdup'):
                        regs[x.res] = 'ARG'
                    elif cal in s.prog.noreturn():
                        s.calls.append((cal, tuple(args))); return
                    else:
                        s.calls.append((cal, tuple(args)))
                        if x.res: regs[x.res] = ('sym', cal + '()')
                elif op == 'br':
                    if not x.ops: nxt = s.fn.bmap[x.targets[0]]
                    else:
                        c = s.val(x.ops[0], regs)
                        if isinstance(c, int): nxt = s.fn.bmap[x.targets[0] if c else x.targets[1]]
                        else:
                            for t_ in x.targets:
                                s._go(s.fn.bmap[t_], blk, dict(regs), dict(mem), dict(st))
                            return
                elif op == 'switch':
                    c = s.val(x.ops[0], regs)
                    if not isinstance(c, int): return
                    t = x.callee
                    for cv, lab in x.cases:
                        if cv == c: t = lab
                    nxt = s.fn.bmap[t]
                elif op in ('ret', 'unreachable'):
                    return
                else:
                    if x.res: regs[x.res] = ('sym', op)
            if nxt is None: return
            prev = blk; blk = nxt

def norm_effects(eff, calls, keep):
    """effects restricted to option state: ctrl/env fields and the option globals"""
    out = {}
    def nv(v):
        if isinstance(v, tuple) and v[0] == 'sym' and v[1] in ('arg', 'nmstr'): return 'ARG'
        if isinstance(v, tuple) and v[0] == 'addr' and v[1] in ('nmstr', 'nmstr[]'): return 'ARG'
        if isinstance(v, tuple) and v[0] == 'sym' and v[1] == '@nmval': return 'NUM'
        if isinstance(v, tuple): return v[1] if len(v) > 1 else str(v)
        return v
    for k, vs in eff.items():
        if keep(k):
            vals = sorted({nv(v) for v in vs}, key=str)
            out[k] = vals[0] if len(vals) == 1 else '|'.join(str(x) for x in vals)
    for cal, args in calls:
        if cal in ('sf_set_case_ins', 'backend_by_name'):
            a = args[0] if args else None
            if isinstance(a, tuple): a = 'ARG'
            out['call:' + cal] = a
    return out

OPTION_GLOBALS = ('tablesext', 'tablesverify', 'tablesfilename', 'tablesname', 'extra_type', 'backing_name', 'preproc_level', 'skelname')

def keep_loc(k):
    return k.startswith('@ctrl.') or k.startswith('@env.') or (k.startswith('@') and k[1:] in OPTION_GLOBALS)

# ------------------------------------------------------------------ R1

def r1(ctx, sp):
    rep = ctx.rep; prog = ctx.flex
    en = {k: v for k, v in enumerators(prog, 'flexopt_flag_t').items()}
    rep.require(len(en) >= 80, 'enum flexopt_flag_t not found in debug info (%d enumerators)' % len(en))
    tbl = flexopts_table(prog)
    rep.require(tbl and len(tbl) >= 100, 'flexopts[] initialiser not found')
    fi = prog.fn('flexinit'); rep.require(fi is not None, 'flexinit not found')
    sws = [x for x in fi.ins if x.op == 'switch']
    rep.require(sws, 'flexinit has no switch')
    sw = max(sws, key=lambda x: len(x.cases))
    cases = {c for c, _ in sw.cases}
    flags = {f for _, f in tbl}
    byval = {v: k for k, v in en.items()}
    for name, val in sorted(en.items()):
        if val not in flags:
            rep.fail('C19.R1', 'C19.R1:options.h:flexopt_flag_t:%s:no-table-entry' % name, 'options.c', 'enumerator %s has no entry in flexopts[]: the option cannot be given on the command line' % name)
        elif val not in cases:
            rep.fail('C19.R1', 'C19.R1:main.c:flexinit:%s:no-case' % name, where(sw), 'enumerator %s has no case in flexinit(): the command-line option is accepted and ignored' % name)
        else:
            rep.ok('C19.R1', '%s=%d: in flexopts[] (%s) and handled by flexinit' % (name, val, ','.join(s_ for s_, f in tbl if f == val)[:40]))
    for s_, f in tbl:
        if f not in byval:
            rep.fail('C19.R1', 'C19.R1:options.c:flexopts:%s:unknown-flag' % s_, 'options.c', 'flexopts[] entry %s carries flag %d which is not a flexopt_flag_t enumerator' % (s_, f))
    # %option tokens
    py = ctx.art.source('parse.y')
    m = re.search(r'\noption\s*:(.*?)\n\s*;\s*\n', py, re.S)
    rep.require(m, 'production `option` not found in parse.y')
    prod_tokens = set(re.findall(r'\bTOK_[A-Z_]+\b', m.group(1)))
    for r in sp.rules:
        if not r.active_in('OPTION', sp) or r.scs == ['*']: continue
        for t in re.findall(r'return\s+(TOK_[A-Z_]+)', r.action):
            if t in ('TOK_NUMERIC',): continue
            if t in prod_tokens: rep.ok('C19.R1', '%%option %s -> %s has an option production' % (r.pat, t))
            else: rep.fail('C19.R1', 'C19.R1:parse.y:option:%s' % t, 'scan.l:%d' % r.line, '<OPTION> rule %r returns %s but parse.y has no option production for it' % (r.pat, t))
    return en, tbl, sw

# ------------------------------------------------------------------ R2

INFORMATIONAL = {
    # symbol: reason it need not be referenced by a skeleton
    'M4_MODE_REAL_FULLTBL': 'duplicate of ctrl.fulltbl, which reaches the skeleton as M4_MODE_FIND_ACTION_FULLTBL / M4_MODE_NULTRANS_FULLTBL',
    'M4_MODE_NO_REAL_FULLTBL': 'see M4_MODE_REAL_FULLTBL',
    'M4_MODE_REWRITE': 'ctrl.rewrite is consumed by flex\'s own scanner (scan.l), not by the skeleton',
    'M4_MODE_NO_REWRITE': 'see M4_MODE_REWRITE',
}
# symbols the option plumbing defines that the c99 / go skeletons do not reference today; the manual promises only
# that these back ends "drop a lot of legacy interfaces ... omit the Bison bridge, header generation, and loadable
# tables".  Reviewed reference table: a symbol that *leaves* the referenced set is a violation, the table is not.
BACKEND_OMITS = {
    'c99': {'M4_MODE_CXX_ONLY', 'M4_MODE_C_ONLY', 'M4_MODE_DO_STDINIT', 'M4_MODE_NO_DO_STDINIT', 'M4_MODE_NO_YYINPUT', 'M4_MODE_REENTRANT_TEXT_IS_ARRAY',
            'M4_MODE_TABLESEXT', 'M4_MODE_YYCLASS', 'M4_YY_CLASS_NAME', 'M4_YY_NO_UNISTD_H', 'M4_YY_REENTRANT', 'M4_YY_TABLES_VERIFY', 'M4_MODE_YYWRAP', 'M4_MODE_LEX_COMPAT'},
    'go': {'M4_MODE_CXX_ONLY', 'M4_MODE_C_ONLY', 'M4_MODE_DO_STDINIT', 'M4_MODE_NO_DO_STDINIT', 'M4_MODE_NO_YYINPUT', 'M4_MODE_REENTRANT_TEXT_IS_ARRAY',
           'M4_MODE_TABLESEXT', 'M4_MODE_YYCLASS', 'M4_YY_CLASS_NAME', 'M4_YY_NO_UNISTD_H', 'M4_YY_REENTRANT', 'M4_YY_TABLES_VERIFY', 'M4_MODE_YYWRAP', 'M4_MODE_LEX_COMPAT',
           'M4_YY_NO_GET_LLOC', 'M4_YY_NO_GET_LVAL', 'M4_YY_NO_SET_LLOC', 'M4_YY_NO_SET_LVAL'},
}

def referenced(sk, sym):
    if sym in sk.tested or sym in sk.refs: return True
    return any(sym in t for _, _, t in sk.text)

def twin(sym):
    for a, b in (('M4_MODE_NO_', 'M4_MODE_'), ('M4_YY_NO_', 'M4_YY_')):
        if sym.startswith(a): return b + sym[len(a):]
    for a, b in (('M4_MODE_', 'M4_MODE_NO_'),):
        if sym.startswith(a): return b + sym[len(a):]
    return None

def r2(ctx):
    rep = ctx.rep; prog = ctx.flex
    # (a) def-use of option fields
    reads = {}; writes = {}
    for f in set(prog.functions.values()):
        res = ir.Resolver(f)
        for x, kind, l in flow.accesses(f, res):
            c = ir.loc_class(l)
            if c and c[0] == 'field' and c[1] in ('ctrl_bundle_t', 'env_bundle_t') and ir.root_of(l) in (('global', 'ctrl'), ('global', 'env')):
                (reads if kind == 'load' else writes).setdefault((c[1], c[2]), []).append(x)
    fields = set(reads) | set(writes)
    rep.require(len(fields) >= 70, 'only %d ctrl/env fields seen (88 confirmed by hand)' % len(fields))
    for fld in sorted(fields):
        r_ = reads.get(fld, []); w_ = writes.get(fld, [])
        name = '%s.%s' % ('ctrl' if fld[0] == 'ctrl_bundle_t' else 'env', fld[1])
        if r_ and not w_:
            rep.fail('C19.R2', 'C19.R2a:flexdef.h:%s:read-never-written' % name, where(r_[0]),
                     'option field %s is read (%d sites, e.g. %s) but no code ever assigns it: the option that should set it has no effect' % (name, len(r_), r_[0].fn.name))
        elif w_ and not r_:
            rep.fail('C19.R2', 'C19.R2a:flexdef.h:%s:written-never-read' % name, where(w_[0]),
                     'option field %s is assigned (%s) but never read: the option has no effect' % (name, w_[0].fn.name))
        else:
            rep.ok('C19.R2', '%s: written in %s, read in %s' % (name, sorted({x.fn.name for x in w_})[:3], sorted({x.fn.name for x in r_})[:3]))
    # (b) symbols defined by the option plumbing are referenced by the skeletons
    gs = skl.generator_symbols(prog)
    plumbing = {}
    for sym, sites in gs.items():
        if sym == '<dynamic>': continue
        calls = [(fn, i, how) for fn, i, how in sites if i is not None and how in skl.DEFINERS]
        if calls: plumbing[sym] = calls
    rep.require(len(plumbing) >= 100, 'only %d m4 symbols defined through visible_define*/out_m4_define (about 130 confirmed)' % len(plumbing))
    sks = {lang: skl.load(ctx.art, lang) for lang in ('cpp', 'c99', 'go')}
    for sym in sorted(plumbing):
        fn, i, how = plumbing[sym][0]
        for lang, sk in sks.items():
            ok = referenced(sk, sym)
            tw = twin(sym)
            if not ok and tw and tw in plumbing and referenced(sk, tw): ok = True
            key = 'C19.R2b:%s-flex.skl:%s:unreferenced' % (lang, sym)
            if ok:
                if lang == 'cpp': rep.ok('C19.R2', 'symbol %s (defined in %s) is referenced by the %s skeleton' % (sym, fn, lang))
                continue
            if sym in INFORMATIONAL: continue
            if lang != 'cpp' and sym in BACKEND_OMITS[lang]: continue
            rep.fail('C19.R2', key, where(i), 'm4 symbol %s is defined by %s() but the %s skeleton never tests or expands it: the option it carries has no effect there' % (sym, fn, lang))
    return plumbing

# ------------------------------------------------------------------ R3

def cli_effects(prog, fi, sw, flag):
    tgt = None
    for cv, lab in sw.cases:
        if cv == flag: tgt = lab
    if tgt is None: return None
    stopb = {fi.bmap[sw.callee]}
    ev = RegionEval(prog, fi, {'arg': 'ARG'}, lambda b, st: b in stopb)
    ev.run(fi.bmap[tgt])
    return norm_effects(ev.effects, ev.calls, keep_loc)

def in_range_stop(lo, hi, suffix):
    """stop predicate: the region is the run of blocks from the case entry through the blocks whose first
    debug line lies in [lo,hi]; leading blocks before the first in-range one (YY_RULE_SETUP) are allowed"""
    def stop(b, st):
        ls = [(x.loc[0], x.line) for x in b.ins if x.line]
        if not ls: return False
        inr = any((f or '').endswith(suffix) and lo <= l <= hi for f, l in ls)
        if inr: st['inrange'] = True; return False
        return st['inrange']
    return stop

def option_action_effects(prog, fs, rule, sense, sp):
    """effects of the scanner action of `rule` with option_sense = sense.  The action is case k of the action
    switch, k = ordinal of the rule among the non-EOF rules (flex numbers rules in file order; <<EOF>> rules take
    no number); the mapping is cross-checked through the debug lines."""
    nlines = rule.action.count('\n') + 1
    lo, hi = rule.line, rule.line + nlines - 1
    k = sum(1 for r in sp.rules if not r.is_eof and r.idx <= rule.idx)
    sw = max([x for x in fs.ins if x.op == 'switch'], key=lambda x: len(x.cases))
    tgt = [lab for cv, lab in sw.cases if cv == k]
    if not tgt: return None
    b = fs.bmap[tgt[0]]
    # cross-check: some instruction reachable within two blocks of the case entry carries a line of the action
    near = [b] + list(b.succ) + [t for s_ in b.succ for t in s_.succ]
    if not any((x.loc[0] or '').endswith('scan.l') and lo <= (x.line or 0) <= hi for bb in near for x in bb.ins):
        return None
    env = {}
    for g in fs.mod.globals:
        if g.endswith('option_sense'): env['@' + g] = int(sense)
    ev = RegionEval(prog, fs, env, in_range_stop(lo, hi, 'scan.l'))
    ev.run(b)
    return norm_effects(ev.effects, ev.calls, keep_loc)

def parse_y_option_effects(prog, tok):
    """effects of the `option: TOK_X '=' NAME` action in yyparse, located by the parse.y line of the production"""
    py = prog.fn('yyparse')
    return None

def r3(ctx, sp, en, tbl, sw):
    rep = ctx.rep; prog = ctx.flex
    fi = prog.fn('flexinit'); fs = prog.fn('flexscan')
    rep.require(fs is not None, 'flexscan not found')
    opt_rules = [r for r in sp.rules if r.scs == ['OPTION'] and not r.is_eof]
    rep.require(len(opt_rules) >= 80, 'only %d <OPTION> rules' % len(opt_rules))
    dfas = {}
    def rule_for_word(w):
        hit = None
        for r in opt_rules:
            if r.idx not in dfas:
                try: dfas[r.idx] = lex.DFA([(1, lex.parse_pattern(r.pat, sp)['head'])])
                except Exception: dfas[r.idx] = None
            d = dfas[r.idx]
            if d is not None and d.matches(w.encode()):
                if hit is None: hit = r
        return hit
    skip_rule_pats = {'{NL}', '{WS}', '"="', '[[:digit:]]+', 'no'}
    n = 0
    for s_, flag in tbl:
        if not s_.startswith('--'): continue
        word = s_[2:].split('=')[0].split('[')[0]
        sense = True
        r = rule_for_word(word)
        if (r is None or r.pat in skip_rule_pats or 'unrecognized' in r.action) and word.startswith('no'):
            r2_ = rule_for_word(word[2:])
            if r2_ is not None: r = r2_; sense = False; word = word[2:]
        if r is None or r.pat in skip_rule_pats or 'unrecognized' in r.action: continue
        n += 1
        key = 'C19.R3:main.c+scan.l:%s' % s_.split('=')[0].split('[')[0]
        try:
            cli = cli_effects(prog, fi, sw, flag)
        except Unknown as e:
            rep.note('C19.R3 %s: command-line case not evaluable (%s)' % (s_, e)); continue
        if re.search(r'return\s+TOK_', r.action):
            opt = token_effects(ctx, prog, r)
        else:
            try: opt = option_action_effects(prog, fs, r, sense, sp)
            except Unknown as e:
                rep.note('C19.R3 %s: %%option action not evaluable (%s)' % (s_, e)); continue
        if cli is None or opt is None:
            rep.note('C19.R3 %s: region not located' % s_); continue
        # trit/bool: compare truthiness-normalised integers
        def nv(v): return v
        ca = {k: nv(v) for k, v in cli.items()}; oa = {k: nv(v) for k, v in opt.items()}
        if ca == oa:
            rep.ok('C19.R3', '%s == %%option %s%s : %s' % (s_, '' if sense else 'no', word, ', '.join('%s=%s' % (k, v) for k, v in sorted(ca.items()))[:90]))
        else:
            only_c = {k: v for k, v in ca.items() if oa.get(k, '∅') != v}
            only_o = {k: v for k, v in oa.items() if ca.get(k, '∅') != v}
            rep.fail('C19.R3', key, 'main.c flexinit case %s / scan.l:%d' % ({v: k for k, v in en.items()}.get(flag), r.line),
                     'command-line %s and %%option %s%s differ: command line sets {%s}, %%option sets {%s}' % (
                         s_, '' if sense else 'no', word,
                         ', '.join('%s=%s' % kv for kv in sorted(only_c.items())), ', '.join('%s=%s' % kv for kv in sorted(only_o.items()))))
    return n

_tok_cache = {}
def token_effects(ctx, prog, rule):
    """effects of the parse.y production for the token returned by an <OPTION> rule: the bison case whose debug
    lines fall inside the production's action in parse.y"""
    tok = re.search(r'return\s+(TOK_[A-Z_]+)', rule.action).group(1)
    py = ctx.art.source('parse.y')
    lines = py.split('\n')
    for k, ln in enumerate(lines):
        if re.search(r'[:|]\s*%s\b' % tok, ln):
            # action: from the next '{' to its matching '}'
            txt = '\n'.join(lines[k:k + 12]); b0 = txt.index('{'); d = 0; j = b0
            while True:
                if txt[j] == '{': d += 1
                elif txt[j] == '}':
                    d -= 1
                    if d == 0: break
                j += 1
            lo = k + 1 + txt[:b0].count('\n'); hi = k + 1 + txt[:j].count('\n')
            yp = prog.fn('yyparse')
            sw = max([x for x in yp.ins if x.op == 'switch'], key=lambda x: len(x.cases))
            cands = []
            for cv, lab in sw.cases:
                b = yp.bmap[lab]
                ls = [(x.loc[0], x.line) for x in b.ins if x.line]
                if ls and (ls[0][0] or '').endswith('parse.y') and lo <= ls[0][1] <= hi: cands.append(b)
            if len(cands) != 1: return None
            ev = RegionEval(prog, yp, {}, in_range_stop(lo, hi, 'parse.y'))
            try: ev.run(cands[0])
            except Unknown: return None
            return norm_effects(ev.effects, ev.calls, keep_loc)
    return None

# ------------------------------------------------------------------ R4

NOYY_FUNCS = {
    'noyyinput': 'yyinput', 'noyyunput': 'yyunput_r', 'noyy_scan_buffer': 'yy_scan_buffer', 'noyy_scan_bytes': 'yy_scan_bytes',
    'noyy_scan_string': 'yy_scan_string', 'noyyget_in': 'yyget_in', 'noyyget_out': 'yyget_out', 'noyyget_leng': 'yyget_leng',
    'noyyget_text': 'yyget_text', 'noyyget_lineno': 'yyget_lineno', 'noyyget_debug': 'yyget_debug', 'noyyset_in': 'yyset_in',
    'noyyset_out': 'yyset_out', 'noyyset_lineno': 'yyset_lineno', 'noyyset_debug': 'yyset_debug', 'noyyget_extra': 'yyget_extra',
    'noyyset_extra': 'yyset_extra', 'noyyget_column': 'yyget_column', 'noyyset_column': 'yyset_column',
    'noyyget_lval': 'yyget_lval', 'noyyset_lval': 'yyset_lval', 'noyyget_lloc': 'yyget_lloc', 'noyyset_lloc': 'yyset_lloc',
    'noyy_top_state': 'yy_top_state',
}
R4_PAIRS = [('nr_noyyfuncs', 'nr_base_min'), ('r_noyyfuncs', 'r_base_min'), ('r_bison_noyylval', 'r_bison_min'), ('nr_stack_nofuncs', 'nr_nolineno')]

def noyy_function(sym):
    """function whose omission an M4_YY_NO_* symbol requests"""
    t = sym[len('M4_YY_NO_'):].lower()
    special = {'flex_alloc': 'yyalloc', 'flex_realloc': 'yyrealloc', 'flex_free': 'yyfree', 'yyunput': 'yyunput', 'yypanic': 'yypanic',
               'push_state': 'yy_push_state', 'pop_state': 'yy_pop_state', 'top_state': 'yy_top_state',
               'scan_buffer': 'yy_scan_buffer', 'scan_bytes': 'yy_scan_bytes', 'scan_string': 'yy_scan_string', 'destroy': 'yylex_destroy'}
    if t in special: return special[t]
    if t.startswith(('get_', 'set_')): return 'yy' + t
    return None

def r4_structure(ctx):
    """(b) in every skeleton: no text is guarded by two different noyy symbols, and every text chunk guarded by
    `not M4_YY_NO_X` is about the function X (mentions its name)"""
    rep = ctx.rep
    n = 0
    for lang in ('cpp', 'c99', 'go'):
        sk = skl.load(ctx.art, lang)
        per = {}
        for l, c, t in sk.text:
            nos = [x[0] for x in c if x[0].startswith('M4_YY_NO_') and not x[1] and noyy_function(x[0])]
            if not t.strip() or not nos: continue
            nos = sorted(set(nos))
            if len(nos) > 1:
                rep.fail('C19.R4', 'C19.R4:%s-flex.skl:%s:double-guard' % (lang, '+'.join(nos)), '%s-flex.skl:%d' % (lang, l),
                         'text is guarded by %s at once: asking for one of these options also omits the other function' % ' and '.join(nos))
                continue
            per.setdefault(nos[0], []).append((l, t))
        n += len(per)
        for sym in sorted(per): rep.ok('C19.R4', '%s skeleton: text under !%s is guarded by no other noyy symbol' % (lang, sym))
    return n

def all_decls(ctx, v):
    import subprocess, e0
    out = os.path.join(v.dir, 'lex.alldecls.ll')
    if not os.path.exists(out) or os.path.getmtime(out) < os.path.getmtime(v.src):
        cc = ['clang++', '-std=gnu++17', '-I', ctx.art.src] if v.backend == 'cxx' else ['clang', '-std=gnu11']
        p = subprocess.run(cc + e0.IRFLAGS + ['-femit-all-decls', v.src, '-o', out], cwd=v.dir, stdout=subprocess.PIPE, stderr=subprocess.STDOUT)
        if p.returncode != 0: ctx.rep.broken('cannot compile %s with -femit-all-decls: %s' % (v.name, p.stdout.decode()[-300:]))
    m = ir.Module(out)
    return {n for n, f in m.functions.items() if (f.file or '').startswith(('lex.', 'spec.'))}

def r4(ctx):
    rep = ctx.rep
    vs = {v.name: v for v in ctx.core()}
    n = 0
    for a, b in R4_PAIRS:
        if a not in vs or b not in vs or vs[a].ll is None or vs[b].ll is None:
            rep.broken('C19.R4 needs variants %s and %s compiled' % (a, b))
        # unused static functions are not emitted by clang: recompile both sides with -femit-all-decls and keep
        # only the functions that come from the generated file itself
        fa = all_decls(ctx, vs[a]); fb = all_decls(ctx, vs[b])
        expected = set()
        for o in vs[a].options:
            if o in NOYY_FUNCS: expected.add(NOYY_FUNCS[o])
        for o in sorted(vs[a].options):
            if o not in NOYY_FUNCS: continue
            fn = NOYY_FUNCS[o]; n += 1
            key = 'C19.R4:cpp-flex.skl:%s:%s' % (o, fn)
            if fn not in fb:
                rep.note('C19.R4 %s: %s is not defined in the baseline variant %s either' % (o, fn, b)); continue
            if fn in fa:
                rep.fail('C19.R4', key, '%s' % vs[a].name, '%%option %s does not omit %s(): it is still defined in the generated scanner' % (o, fn), variant=vs[a].describe())
            else:
                rep.ok('C19.R4', '%s: %s() defined in %s, absent from %s' % (o, fn, b, a))
        # nothing else disappears (helpers that only the omitted functions used may go with them)
        HELPERS = {'yy_flex_strlen', 'yy_flex_strncpy'}
        extra = (fb - fa) - expected - HELPERS
        # functions that exist only to serve an omitted one
        extra = {x for x in extra if not x.startswith('yy_flex_')}
        if extra:
            rep.fail('C19.R4', 'C19.R4:cpp-flex.skl:%s:collateral' % a, vs[a].name, 'the noyy* options of %s also removed %s' % (a, sorted(extra)), variant=vs[a].describe())
        else:
            rep.ok('C19.R4', '%s vs %s: exactly the named functions are omitted (%d)' % (a, b, len(expected & fb)))
    return n

def r4_single(ctx):
    """one variant per noyy* option: the set of functions defined by the generated file differs from the
    baseline by exactly the function the option names"""
    rep = ctx.rep
    vs = []
    for be in ('nr', 'r'):
        for o, fn in sorted(NOYY_FUNCS.items()):
            if be == 'nr' and o in ('noyyget_extra', 'noyyset_extra', 'noyyget_column', 'noyyset_column', 'noyyget_lval', 'noyyset_lval', 'noyyget_lloc', 'noyyset_lloc'): continue
            opts = [o]; feats = ('nul', 'eofrule')
            if 'lval' in o or 'lloc' in o: opts = ['bison-bridge', 'bison-locations', o]
            if 'state' in o: feats = ('nul', 'eofrule', 'sc'); opts = ['stack', o]
            vs.append((variants.Variant('%s_%s' % (be, o), be, feats, opts), o, fn, be, tuple(x for x in opts if x != o), feats))
    bases = {}
    for v, o, fn, be, bopts, feats in vs:
        k = (be, bopts, feats)
        if k not in bases: bases[k] = variants.Variant('%s_base_%d' % (be, len(bases)), be, feats, list(bopts))
    variants.instantiate(ctx.art, [v for v, *_ in vs] + list(bases.values()), 'noyy')
    cache = {}
    def decls(v):
        if v.name not in cache:
            if v.src is None: rep.broken('variant %s was not generated: %s' % (v.name, v.stderr[-200:]))
            cache[v.name] = all_decls(ctx, v)
        return cache[v.name]
    n = 0
    for v, o, fn, be, bopts, feats in vs:
        base = bases[(be, bopts, feats)]
        fa = decls(v); fb = decls(base)
        gone = fb - fa; new = fa - fb
        key = 'C19.R4:cpp-flex.skl:%s:%s' % (o, fn)
        n += 1
        if fn not in fb:
            rep.note('C19.R4 %s/%s: %s() is not defined in the baseline either' % (be, o, fn)); continue
        if gone == {fn} and not new:
            rep.ok('C19.R4', '%s %%option %s alone removes exactly %s()' % (be, o, fn))
        else:
            rep.fail('C19.R4', key + (':also-' + '+'.join(sorted(gone - {fn})) if gone - {fn} else ':kept' if fn in fa else ':added'), v.name,
                     '%%option %s (%s): functions removed %s, added %s; expected exactly {%s} removed' % (o, be, sorted(gone), sorted(new), fn), variant=v.describe())
    return n

VALUE_OPTIONS = [
    # (name, %option text or CLI flags, regex that must match the generated code with comments removed, what it means)
    ('bufsize',     ['bufsize=12345'], [], r'\b12345\b', 'the buffer size constant'),
    ('yylmax',      ['yylmax=2345', 'array'], [], r'\byytext\s*\[\s*2345\s*\]', 'the size of the %array yytext'),
    ('yydecl',      ['yydecl="int verif_lex(void)"'], [], r'\bint verif_lex\(void\)', 'the declaration of the scanning routine'),
    ('yyterminate', ['yyterminate="return 77"'], [], r'return 77', 'what yyterminate() expands to'),
    ('pre-action',  ['pre-action="verif_pre();"'], [], r'\bverif_pre\(\);', 'code run before every action'),
    ('post-action', ['post-action="verif_post(); break;"'], [], r'\bverif_post\(\); break;', 'code run after every action'),
    # the same fragments in a scanner with a ^ rule: the macros that carry them have an m4 arm of their own for M4_MODE_BOL_NEEDED
    ('pre-action+bol',  ['pre-action="verif_pre();"'], [], r'\bverif_pre\(\);', 'code run before every action (scanner with a ^ rule)'),
    ('post-action+bol', ['post-action="verif_post(); break;"'], [], r'\bverif_post\(\); break;', 'code run after every action (scanner with a ^ rule)'),
    ('user-init+bol',   ['user-init="verif_init();"'], [], r'\bverif_init\(\);', 'code run on the first call (scanner with a ^ rule)'),
    ('user-init',   ['user-init="verif_init();"'], [], r'\bverif_init\(\);', 'code run on the first call'),
    ('extra-type',  ['reentrant', 'extra-type="struct verif_extra *"'], [], r'#define\s+YY_EXTRA_TYPE\s+struct verif_extra \*', 'the type of yyextra'),
    ('prefix',      ['prefix="verif"'], [], r'\bveriflex\b', 'the prefix of the external names'),
    ('-D',          [], ['-DVERIF_SYM=4242'], r'#define\s+VERIF_SYM\s+4242\b', 'a preprocessor definition requested on the command line'),
    ('-D-plain',    [], ['-DVERIF_FLAG'], r'#define\s+VERIF_FLAG\b', 'a preprocessor definition without a value'),
    ('yyclass',     ['c++', 'yyclass="VerifLexer"'], [], r'\bVerifLexer::yylex\b', 'the class whose yylex is generated'),
    ('emit-r',      ['emit="r"'], [], r'\bint\s+yylex_init\s*\(', 'the reentrant API (backend_by_name: "r" selects the default back end, reentrant)'),
    ('-e-r',        [], ['-e', 'r'], r'\bint\s+yylex_init\s*\(', 'the reentrant API, selected on the command line'),
]

def strip_comments(t):
    return re.sub(r'/\*.*?\*/', ' ', t, flags=re.S)

def r5(ctx):
    """R5: an option that carries a value reaches the generated code: instantiate one scanner per option with a marker value
    and require the marker in the code (comments removed) in the documented syntactic position."""
    rep = ctx.rep
    vs = []
    for name, opts, flags, rx, what in VALUE_OPTIONS:
        be = 'cxx' if 'c++' in opts else 'r' if 'reentrant' in opts else 'nr'
        o2 = [o for o in opts if o not in ('c++', 'reentrant')] + ['noyywrap']
        body = '%{\nstruct verif_extra { int n; };\nstatic void verif_pre(void){} static void verif_post(void){} static void verif_init(void){}\n%}\n'
        if be == 'cxx': body = '%{\nclass VerifLexer : public yyFlexLexer { public: int yylex(); };\n%}\n'
        head = {'cxx': '%option c++\n', 'r': '%option reentrant\n', 'nr': ''}[be]
        rules = '^a { }\nb { }\n' if name.endswith('+bol') else 'a { }\n'
        spec = head + ''.join('%%option %s\n' % o for o in o2) + body + '%%\n' + rules + '%%\n'
        vs.append((variants.Variant('valopt_%s' % name.strip('-').replace('-', '_').replace('+', '_') , be, (), o2, flags=flags, raw_spec=spec), name, rx, what))
    variants.instantiate(ctx.art, [v for v, *_ in vs], 'valopt')
    n = 0
    for v, name, rx, what in vs:
        n += 1
        key = 'C19.R5:option:%s' % name
        if v.crashed or v.refused or v.src is None:
            rep.fail('C19.R5', key + ':refused', v.name, 'flex did not accept the documented option %s: %s' % (name, v.stderr.strip().split('\n')[-1][:120]), replay_input=v.spec(), variant=v.describe()); continue
        code = strip_comments(open(v.src, errors='replace').read())
        marker = {'pre-action': 'verif_pre', 'post-action': 'verif_post', 'user-init': 'verif_init'}.get(name.split('+')[0])
        if re.search(rx, code) and marker is not None:
            # a code fragment must also be *executed* by the scanning routine: a #define that nothing expands is no effect.
            # Decided on the IR of the probe: yylex contains a call of the marker function.
            if v.ll is None:
                rep.broken('C19.R5: probe %s did not compile to IR: %s' % (v.name, (getattr(v, 'll_err', '') or '')[-200:]))
            mod = variants.module(v)
            lexfns = [f for nm, f in mod.functions.items() if nm == 'yylex']
            if not lexfns: rep.broken('C19.R5: no yylex in probe %s' % v.name)
            if any(i.op == 'call' and i.callee == marker for i in lexfns[0].ins):
                rep.ok('C19.R5', 'option %s: %s is part of yylex (call of %s in its IR)' % (name, what, marker))
            else:
                rep.fail('C19.R5', key + ':defined-but-never-executed', v.name, 'option %s was accepted and its text is in the generated file, but yylex never executes it (no call of %s in the '
                         'IR of yylex): %s has no effect in this configuration' % (name, marker, what), replay_input=v.spec(), variant=v.describe())
        elif re.search(rx, code):
            rep.ok('C19.R5', 'option %s: %s appears in the generated code' % (name, what))
        else:
            rep.fail('C19.R5', key + ':no-effect', v.name, 'option %s was accepted but %s does not appear in the generated code (pattern %s not found outside comments)' % (name, what, rx),
                     replay_input=v.spec() + ' flags: ' + ' '.join(v.flags), variant=v.describe())
    return n

CSIZE_DEFAULTS = [
    # (name, %option words, documented default character-set size) - manual, option -7: 8-bit by default; 7-bit by default
    # with -Cf/-CF; "if you use -Cfe or -CFe ... flex still defaults to generating an 8-bit scanner"
    ('Cem', ['ecs', 'meta-ecs'], 256), ('C', ['noecs', 'nometa-ecs'], 256), ('Ce', ['ecs', 'nometa-ecs'], 256),
    ('Cf', ['full'], 128), ('CF', ['fast'], 128), ('Cfe', ['full', 'ecs'], 256), ('CFe', ['fast', 'ecs'], 256), ('Cfae', ['full', 'align', 'ecs'], 256),
    ('Cf7', ['full', 'ecs', '7bit'], 128), ('Cf8', ['full', '8bit'], 256), ('Cem7', ['7bit'], 128),
]

def r6(ctx):
    """R6: the documented default of -7/-8: read the character-set size the generator chose from the dimensions of the
    emitted tables (yy_ec length with equivalence classes, row length of yy_nxt for -Cf without them, YY_NUL_EC for -CF)."""
    import tbl
    rep = ctx.rep
    vs = []
    for name, opts, want in CSIZE_DEFAULTS:
        spec = ''.join('%%option %s\n' % o for o in ['noyywrap'] + opts) + '%%\n[a-z]+  { return 1; }\n[0-9]+ { return 2; }\n.|\\n { }\n%%\n'
        vs.append((variants.Variant('csize_%s' % name, 'nr', (), ['noyywrap'] + opts, raw_spec=spec), want))
    variants.instantiate(ctx.art, [v for v, _ in vs], 'csize')
    n = 0
    for v, want in vs:
        n += 1
        key = 'C19.R6:default-character-size:%s' % v.name.split('_', 1)[1]
        if v.ll is None:
            rep.fail('C19.R6', key + ':not-generated', v.name, 'flex did not generate a scanner for %%option %s: %s' % (' '.join(v.options), (v.stderr or v.ll_err).strip().split('\n')[-1][:120]), variant=v.describe()); continue
        mod = variants.module(v)
        d = tbl.defines(open(v.src, errors='replace').read())
        got = None
        ec = tbl.int_array(mod, 'yy_ec')
        if ec is not None: got = len(ec)
        elif 'yy_nxt' in mod.globals and mod.globals['yy_nxt'].ty.k == 'arr' and mod.globals['yy_nxt'].ty.b.k == 'arr': got = mod.globals['yy_nxt'].ty.b.a
        elif d.get('YY_NUL_EC') is not None: got = d['YY_NUL_EC']      # without equivalence classes NUL is given the class number csize
        if got == want:
            rep.ok('C19.R6', '%%option %s: %d-bit scanner as documented' % (' '.join(v.options[1:]) or '(default)', 8 if want == 256 else 7))
        else:
            rep.fail('C19.R6', key, v.name, 'with %%option %s the generated tables cover %s character codes; the manual documents a %d-bit scanner (%d codes) for this combination' % (
                ' '.join(v.options[1:]) or '(default)', got, 8 if want == 256 else 7, want), replay_input=v.spec(), variant=v.describe())
    return n

def r7(ctx):
    """R7: %option bufsize reaches every buffer the scanner creates for itself.  In every C/C++ variant all calls of
    yy_create_buffer made by skeleton functions (yylex, yyrestart, the yy_set_* helpers, C++ switch_streams) pass the same
    constant size; in the bufsize=N variants that constant is N."""
    import re as _re
    rep = ctx.rep; n = 0
    for v in ctx.variants():
        mod = variants.module(v)
        sites = []
        for f in mod.functions.values():
            if f.name.startswith('verif_') or f.name == 'main': continue
            for c in f.ins:
                if c.op not in ('call', 'invoke') or not isinstance(c.callee, str): continue
                if not _re.search(r'(^|[a-z0-9])(yy|foo)?_?create_buffer', c.callee) and 'yy_create_buffer' not in c.callee and 'create_buffer' not in c.callee: continue
                ints = [a for a in c.ops if a[0] == 'int']
                sites.append((f, c, ints[-1][1] if ints else None))
        if not sites: continue
        n += 1
        want = None
        for o in v.options:
            m = _re.match(r'bufsize=(\d+)$', o)
            if m: want = int(m.group(1))
        sizes = {sz for _, _, sz in sites}
        sk = {'c99': 'c99-flex.skl', 'go': 'go-flex.skl'}.get(v.backend, 'cpp-flex.skl')
        bad = None
        if None in sizes: bad = [x for x in sites if x[2] is None][0]; why = 'passes a size that is not the constant YY_BUF_SIZE'
        elif want is not None and sizes != {want}:
            bad = [x for x in sites if x[2] != want][0]; why = 'creates a buffer of %d bytes although %%option bufsize=%d was given' % (bad[2], want)
        elif len(sizes) > 1:
            common = max(sizes, key=lambda z: sum(1 for x in sites if x[2] == z))
            bad = [x for x in sites if x[2] != common][0]; why = 'creates a buffer of %d bytes where the other %d internal call sites use %d (YY_BUF_SIZE)' % (bad[2], len(sites) - 1, common)
        if bad:
            rep.fail('C19.R7', 'C19.R7:%s:%s:internal-buffer-size' % (sk, genutil_norm(bad[0].name)), where(bad[1]), '%s() %s [variant %s]' % (bad[0].name, why, v.name), variant=v.describe())
        else:
            rep.ok('C19.R7', '%s: %d internal yy_create_buffer call sites all pass %s' % (v.name, len(sites), sorted(sizes)[0]))
    return n

def genutil_norm(name):
    import re as _re
    name = _re.sub(r'^(foo|bar)', 'yy', name)
    m = _re.search(r'(yy_?[a-z_]+|switch_streams|ctor_common)', name)
    return m.group(1) if m else name

def r8(ctx):
    """R8: an explicit %option X / noX overrides the detection of X and of nothing else.  For every ctrl field
    `<x>_really_used` (a trit set by %option <x>): in readin() each constant store to the detection flag of <x> (the global
    whose name starts with <x>: reject, yymore_used) that is controlled by a `_really_used` test is controlled by the test of
    its OWN field, with the matching value (== true -> store true, == false -> store false), and both stores exist."""
    rep = ctx.rep; prog = ctx.flex
    f = prog.fn('readin')
    if f is None: rep.broken('readin() not found')
    res = ir.Resolver(f); cfg = prog.cfg(f, cut=False)
    fields = set()
    for x in f.ins:
        if x.op == 'load':
            c = ir.loc_class(res.loc(x.ops[0]))
            if c and c[0] == 'field' and c[2].endswith('_really_used'): fields.add(c[2])
    if len(fields) < 2: rep.broken('C19.R8: readin() tests %d *_really_used fields (2 expected)' % len(fields))
    n = 0
    for fld in sorted(fields):
        stem = fld[:-len('_really_used')]
        flags = sorted({res.loc(x.ops[1])[1] for x in f.ins if x.op == 'store' and res.loc(x.ops[1])[0] == 'global' and res.loc(x.ops[1])[1].startswith(stem)})
        if len(flags) != 1: rep.broken('C19.R8: no unique detection flag for %s in readin() (%s)' % (fld, flags))
        flag = flags[0]
        seen = {}
        for x in f.ins:
            if x.op != 'store' or res.loc(x.ops[1]) != ('global', flag) or x.ops[0][0] != 'int': continue
            ctl = []
            for br, t in cfg.control_deps(x.blk):
                con = S_edge(f, br, t)
                if con is None: continue
                d = f.def_of(con[1]) if con[1][0] == 'reg' else None
                while d is not None and d.op in ('sext', 'zext', 'trunc'): d = f.def_of(d.ops[0])
                if d is None or d.op != 'load': continue
                c = ir.loc_class(res.loc(d.ops[0]))
                if c and c[0] == 'field' and c[2].endswith('_really_used'): ctl.append((c[2], con[0], con[2]))
            if not ctl: continue          # ordinary detection / defaults: not an override
            n += 1
            val = 1 if x.ops[0][1] else 0
            key = 'C19.R8:main.c:readin:%s:override' % flag
            own = [c for c in ctl if c[0] == fld]
            if not own:
                rep.fail('C19.R8', key + ':wrong-option', where(x), 'readin() sets %s = %d under a test of ctrl.%s instead of ctrl.%s: %%option %s%s is ignored (or applied) depending on another option' % (
                    flag, val, ctl[0][0], fld, '' if val else 'no', stem), replay_input='%%option %s%s' % ('' if val else 'no', stem))
            elif not any(c[1] == 'eq' and c[2] == ('int', val) for c in own):
                rep.fail('C19.R8', key + ':wrong-value', where(x), 'readin() sets %s = %d on the edge %s of ctrl.%s' % (flag, val, [(c[1], c[2]) for c in own], fld))
            else:
                rep.ok('C19.R8', 'readin(): %s = %d exactly under ctrl.%s == %d' % (flag, val, fld, val)); seen[val] = True
        for val in (0, 1):
            if val not in seen:
                n += 1
                rep.fail('C19.R8', 'C19.R8:main.c:readin:%s:override:missing-%s' % (flag, 'true' if val else 'false'), fwhere(f),
                         'readin() has no store %s = %d under ctrl.%s == %d: %%option %s%s does not override the detection' % (flag, val, fld, val, '' if val else 'no', stem))
    return n

def S_edge(f, br, t):
    """(pred, value, constant) constraint that holds on the edge br -> t for `icmp eq/ne value, const` conditions"""
    if not br.ops: return None
    d = f.def_of(br.ops[0])
    if d is None or d.op != 'icmp' or d.pred not in ('eq', 'ne'): return None
    a, b = d.ops
    if b[0] != 'int': a, b = b, a
    if b[0] != 'int': return None
    tn = t.name if hasattr(t, 'name') else t
    taken_true = (tn == br.targets[0])
    pred = d.pred if taken_true else ('ne' if d.pred == 'eq' else 'eq')
    return (pred, a, b)

MEM_SINKS = ('snprintf', 'sprintf', 'vsnprintf', 'strcpy', 'strncpy', 'strcat', 'strncat', 'memcpy', 'buf_strappend', 'buf_strnappend', 'buf_prints',
             'buf_m4_define', 'buf_m4_undefine', 'buf_strdefine', 'xstrdup', 'strdup')

def _reads_option_state(prog, g, depth=0):
    """function g (not a setter) loads a field of ctrl/env: its result depends on options"""
    if g is None or not g.blocks or depth > 2: return None
    res = ir.Resolver(g)
    for x in g.ins:
        if x.op == 'load':
            c = ir.loc_class(res.loc(x.ops[0]))
            if c and c[0] == 'field' and c[1] in ('ctrl_bundle_t', 'env_bundle_t'): return c[2]
    return None

def r9(ctx):
    """R9: flexinit() runs before the input file is read, so the options it sees are only the command line's: a value it
    derives from an option field and stores away (a composed file name, a copied string) ignores the %option spelling of the
    same option.  In flexinit no value loaded from a field of ctrl/env, and no result of a function that reads such a field,
    flows into an argument of a call that composes or copies a string (snprintf, strcpy, buf_*, strdup ...).  Options are
    only *recorded* there; everything derived from them is computed in check_options()/readin()/later."""
    rep = ctx.rep; prog = ctx.flex
    f = prog.fn('flexinit')
    if f is None: rep.broken('flexinit() not found')
    if prog.fn('check_options') is None: rep.broken('check_options() not found')
    res = ir.Resolver(f)
    taint = {}          # reg -> description of the option-dependent source
    slots = {}          # local slot -> description
    changed = True; rounds = 0
    while changed and rounds < 10:
        changed = False; rounds += 1
        for x in f.ins:
            if x.res is None or x.res in taint: continue
            src = None
            if x.op == 'load':
                c = ir.loc_class(res.loc(x.ops[0]))
                if c and c[0] == 'field' and c[1] in ('ctrl_bundle_t', 'env_bundle_t'): src = '%s.%s' % ('ctrl' if c[1].startswith('ctrl') else 'env', c[2])
                elif repr(x.ops[0]) in slots: src = slots[repr(x.ops[0])]
            elif x.op == 'call' and isinstance(x.callee, str) and x.callee not in MEM_SINKS:
                fld = _reads_option_state(prog, prog.fn(x.callee))
                if fld is not None and x.callee not in ('backend_by_name',): src = '%s() (reads %s)' % (x.callee, fld)
            elif x.op in ('bitcast', 'getelementptr', 'sext', 'zext', 'trunc', 'add', 'sub', 'select', 'phi', 'inttoptr', 'ptrtoint'):
                for o in x.ops:
                    if isinstance(o, tuple) and o[0] == 'reg' and o[1] in taint: src = taint[o[1]]
            if src is not None: taint[x.res] = src; changed = True
        for x in f.ins:
            if x.op == 'store' and x.ops[0][0] == 'reg' and x.ops[0][1] in taint and repr(x.ops[1]) not in slots:
                l = res.loc(x.ops[1])
                if l and l[0] == 'local': slots[repr(x.ops[1])] = taint[x.ops[0][1]]; changed = True
    n = 0
    for c in f.ins:
        if c.op != 'call' or c.callee not in MEM_SINKS: continue
        n += 1
        bad = [taint[o[1]] for o in c.ops if isinstance(o, tuple) and o[0] == 'reg' and o[1] in taint]
        if bad:
            rep.fail('C19.R9', 'C19.R9:main.c:flexinit:%s:derived-from-%s' % (c.callee, re.sub(r'\W+', '_', bad[0])), where(c),
                     'flexinit() passes a value derived from %s to %s(): flexinit runs before the %%option lines of the input are read, so the composed text '
                     'reflects only the command-line spelling of the option' % (bad[0], c.callee))
        else:
            rep.ok('C19.R9', 'flexinit %s@%s: no argument depends on an option field' % (c.callee, c.line))
    # the documented default output name is composed where the options are complete
    g = prog.fn('check_options'); composed = False
    gres = ir.Resolver(g)
    for c in g.ins:
        if c.op == 'call' and c.callee == 'snprintf':
            for o in c.ops:
                d = g.def_of(o) if isinstance(o, tuple) and o[0] == 'reg' else None
                if d is not None and d.op == 'load':
                    cl = ir.loc_class(gres.loc(d.ops[0]))
                    if cl and cl[0] == 'field' and cl[2] == 'prefix': composed = True
    n += 1
    if composed: rep.ok('C19.R9', 'check_options: the default output name is composed from ctrl.prefix after the options of the input are known')
    else: rep.fail('C19.R9', 'C19.R9:main.c:check_options:default-output-name-not-composed-here', fwhere(g),
                   'check_options() no longer composes the default output file name from ctrl.prefix: it is the first point at which %option prefix / c++ / emit of the input file are known')
    return n

def run(ctx):
    rep = ctx.rep
    sp = lex.parse_spec(ctx.art.source('scan.l'))
    en, tbl, sw = r1(ctx, sp)
    plumbing = r2(ctx)
    n3 = r3(ctx, sp, en, tbl, sw)
    n4 = r4(ctx) + r4_structure(ctx) + r4_single(ctx)
    n5 = r5(ctx)
    n6 = r6(ctx)
    r7(ctx)
    r8(ctx)
    r9(ctx)
    rep.setcount('flexopt_enumerators', len(en)); rep.setcount('flexopts_entries', len(tbl))
    rep.setcount('plumbing_symbols', len(plumbing)); rep.setcount('cli_vs_option_pairs', n3)
    rep.floor('C19.R1', 100, '94 enumerators + 14 %option tokens')
    rep.floor('C19.R2', 150, '>=80 option fields + >=100 plumbing symbols')
    rep.floor('C19.R3', 55, 'options that exist in both spellings')
    rep.floor('C19.R4', 25, 'noyy* options in the nr/r variants')
    rep.floor('C19.R5', 12, 'options that carry a value')
    rep.floor('C19.R6', 10, 'table options x documented default of -7/-8')
    rep.floor('C19.R8', 4, 'reject / yymore override stores in readin')
    rep.floor('C19.R9', 3, 'string-composing calls of flexinit (snprintf for -D, buf_strappend) + the default output name in check_options')
    rep.floor('C19.R7', 100, 'variants with internal yy_create_buffer call sites')
    rep.undecided += ['the observable run-time effect of each option (value-level)', 'documentation agreement of option descriptions',
                      'options that exist in only one spelling are compared with nothing']
    rep.assumptions += ['the region evaluator covers the straight-line/branching shapes of today\'s option actions; an action it cannot evaluate is listed in notes, not judged']
    return rep.finish('other',
        'Option plumbing decided statically: enumerator/table/switch exhaustiveness from debug info and IR; def-use of every ctrl/env field over '
        'flex\'s IR; every m4 symbol defined through visible_define*/out_m4_define is referenced by the skeleton models (E1); the stores of each '
        '--name/--noname case of flexinit are compared with those of the %option action (and its parse.y production) by concrete evaluation of '
        'the IR region with option_sense fixed; noyy* options compared between variants with and without them.')
