"""C01 - longest match / first rule / the pattern language (generator side).

Tokenisation for all rule sets x inputs is not decided.  Decided, on flex's own code:

R1  every function that reads members of a character class (a byte load through `ccltbl`) interprets the
    negation flag `cclng` of that class: each member load is controlled by a branch on `cclng[..]`, or the
    function's result is computed from `cclng[..]`.  Pointers into `ccltbl` may be handed only to callees
    for which negation is irrelevant (table below).
R2  POSIX class expressions: for each `"[:name:]"` / `"[:^name:]"` literal of scan.l the chain
    literal -> returned token (scan.l action) -> token number (parse.h) -> grammar symbol (yytranslate) ->
    parser state (yystos) -> reduction (yydefact) -> action code (switch in yyparse) ends in code that adds
    exactly the characters the literal denotes (evaluated for every c in 0..255 over the branch conditions
    that control the `ccladd(currccl, c)` calls of that action).
R3  myesc(): each `case 'x'` of the escape switch returns the C escape of the same letter; octal escapes
    take <=3 digits base 8, hex escapes <=2 digits base 16.
R4  the default rule is branched into every start condition: in the action that stores `default_rule` the
    `scset[i] = mkbranch(scset[i], <mkstate result>)` call runs for i = 1..lastsc under no other guard.
R5  every qsort over class members uses cclcmp, and cclcmp orders bytes ascending with NUL last
    (decided by evaluating the comparator on all 256x256 byte pairs).
R6  snstods(): the accepting number stored for a non-REJECT state is a minimum reduction over
    accset[1..nacc] starting from num_rules+1.

Helpers at the top are shared with c07.py.
"""
import re
import ir, flow, lex
from common import where, fwhere

# =============================================================================== shared helpers

class Unrecognised(Exception):
    """the code does not have a shape this analysis understands -> ANALYSIS-BROKEN, never a verdict"""

def all_fns(prog):
    seen = set(); out = []
    for f in prog.functions.values():
        if id(f) not in seen: seen.add(id(f)); out.append(f)
    return out

def src_file(fn):
    return fn.file or 'unknown'

def bool_core(fn, v):
    """strip the i1 plumbing of a branch condition: returns (value, pol) such that the condition is
    (value != 0) when pol else (value == 0)"""
    pol = True
    for _ in range(20):
        d = fn.def_of(v)
        if d is None: break
        if d.op == 'icmp' and d.pred in ('ne', 'eq') and (d.ops[1] == ('int', 0) or d.ops[0] == ('int', 0)):
            v = d.ops[0] if d.ops[1] == ('int', 0) else d.ops[1]
            if d.pred == 'eq': pol = not pol
            continue
        if d.op == 'xor' and d.ops[1] in (('int', 1), ('int', -1)):
            v = d.ops[0]; pol = not pol; continue
        if d.op in ('zext', 'trunc', 'sext'):
            v = d.ops[0]; continue
        break
    return v, pol

def region(cfg, blk):
    """blocks dominated by blk: the body of a switch case / if arm that starts at blk"""
    return [b for b in cfg.blocks if cfg.dominates(blk, b)]

def biggest_switch(fn, least=1):
    best = None
    for x in fn.ins:
        if x.op == 'switch' and x.cases and len(x.cases) >= least and (best is None or len(x.cases) > len(best.cases)): best = x
    return best

def ret_value_stores(fn):
    """(allocas, stores) that determine the value returned by fn at -O0: `ret (load A)` -> stores to A; direct `ret v` -> [v]"""
    stores = []; direct = []
    for x in fn.ins:
        if x.op != 'ret' or not x.ops: continue
        d = fn.def_of(x.ops[0])
        if d is not None and d.op == 'load' and fn.def_of(d.ops[0]) is not None and fn.def_of(d.ops[0]).op == 'alloca':
            slot = d.ops[0]
            stores += [s for s in fn.ins if s.op == 'store' and s.ops[1] == slot]
        else:
            direct.append(x)
    return stores, direct

def local_slot(fn, v):
    """if v is a load of an alloca, the alloca's register name"""
    d = fn.def_of(v)
    if d is not None and d.op == 'load':
        a = fn.def_of(d.ops[0])
        if a is not None and a.op == 'alloca': return a.res
    return None

def stores_to_slot(fn, slot):
    return [s for s in fn.ins if s.op == 'store' and s.ops[1] == ('reg', slot)]

# ------------------------------------------------------------------ bit-exact evaluator for small pure functions

def _bits(t):
    if t is None: return 64
    if t.k == 'int': return t.a
    return 64

def _u(v, n): return v & ((1 << n) - 1)
def _s(v, n):
    v &= (1 << n) - 1
    return v - (1 << n) if v >> (n - 1) else v

def run_pure(fn, args, maxsteps=4000):
    """Evaluate a loop-light, call-free -O0 function on concrete arguments.  Pointer arguments are given as
    Python lists (one cell per element).  Returns the signed return value.  Unsupported instruction -> Unrecognised."""
    env = {}
    for (t, name), a in zip(fn.params, args):
        env[name] = ('ptr', a, 0) if isinstance(a, list) else a
    def val(v):
        if v[0] == 'int': return v[1]
        if v[0] == 'reg':
            if v[1] not in env: raise Unrecognised('%s: value %%%s undefined on this path' % (fn.name, v[1]))
            return env[v[1]]
        if v[0] == 'null': return 0
        raise Unrecognised('%s: operand %r' % (fn.name, v))
    blk = fn.entry; prev = None; steps = 0
    while True:
        nxt = None
        for x in blk.ins:
            steps += 1
            if steps > maxsteps: raise Unrecognised('%s: evaluation limit' % fn.name)
            op = x.op
            if op == 'alloca': env[x.res] = ('ptr', [None], 0)
            elif op == 'store':
                p = val(x.ops[1])
                if not isinstance(p, tuple): raise Unrecognised('%s: store through non-pointer' % fn.name)
                p[1][p[2]] = val(x.ops[0])
            elif op == 'load':
                p = val(x.ops[0])
                if not isinstance(p, tuple) or not (0 <= p[2] < len(p[1])) or p[1][p[2]] is None:
                    raise Unrecognised('%s: load outside the modelled objects' % fn.name)
                env[x.res] = p[1][p[2]]
            elif op in ('bitcast', 'addrspacecast'): env[x.res] = val(x.ops[0])
            elif op == 'getelementptr':
                p = val(x.ops[0])
                if len(x.ops) != 2 or not isinstance(p, tuple): raise Unrecognised('%s: gep form' % fn.name)
                env[x.res] = ('ptr', p[1], p[2] + _s(val(x.ops[1]), 64))
            elif op == 'zext': env[x.res] = _u(val(x.ops[0]), _bits(x.srcty))
            elif op == 'sext': env[x.res] = _u(_s(val(x.ops[0]), _bits(x.srcty)), _bits(x.ty))
            elif op == 'trunc': env[x.res] = _u(val(x.ops[0]), _bits(x.ty))
            elif op in ('add', 'sub', 'mul', 'and', 'or', 'xor'):
                a, b = val(x.ops[0]), val(x.ops[1]); n = _bits(x.ty)
                r = {'add': a + b, 'sub': a - b, 'mul': a * b, 'and': a & b, 'or': a | b, 'xor': a ^ b}[op]
                env[x.res] = _u(r, n)
            elif op == 'icmp':
                n = _bits(x.ty); a, b = val(x.ops[0]), val(x.ops[1])
                if isinstance(a, tuple) or isinstance(b, tuple): raise Unrecognised('%s: pointer compare' % fn.name)
                sa, sb, ua, ub = _s(a, n), _s(b, n), _u(a, n), _u(b, n)
                env[x.res] = int({'eq': ua == ub, 'ne': ua != ub, 'slt': sa < sb, 'sle': sa <= sb, 'sgt': sa > sb, 'sge': sa >= sb,
                                  'ult': ua < ub, 'ule': ua <= ub, 'ugt': ua > ub, 'uge': ua >= ub}[x.pred])
            elif op == 'select': env[x.res] = val(x.ops[1]) if val(x.ops[0]) & 1 else val(x.ops[2])
            elif op == 'phi':
                for v_, lab in zip(x.ops, x.cases):
                    if prev is not None and lab == prev.name: env[x.res] = val(v_); break
                else: raise Unrecognised('%s: phi' % fn.name)
            elif op == 'br':
                if x.ops: nxt = fn.bmap[x.targets[0] if val(x.ops[0]) & 1 else x.targets[1]]
                else: nxt = fn.bmap[x.targets[0]]
            elif op == 'switch':
                v = _s(val(x.ops[0]), _bits(x.ty)); lab = x.callee
                for c, l in x.cases:
                    if c == v: lab = l
                nxt = fn.bmap[lab]
            elif op == 'ret':
                if not x.ops: return None
                return _s(val(x.ops[0]), _bits(x.ty))
            else:
                raise Unrecognised('%s: instruction %s is outside the pure subset' % (fn.name, op))
        if nxt is None: raise Unrecognised('%s: block %s falls off' % (fn.name, blk.name))
        prev, blk = blk, nxt

def sign(x): return (x > 0) - (x < 0)

# =============================================================================== R1

CCLTBL_MEMBER = ('elem', ('deref', ('global', 'ccltbl')))

# functions that read raw members on purpose (one symbol per entry, with the reason)
R1_EXCEPT = {
    'ccladd': 'duplicate scan of the class under construction; negation is applied after the member list is complete',
    'ccl2ecl': 'rewrites members to equivalence-class numbers in place; the flag is interpreted later by dfa.c',
}
# callees that may receive a pointer to the raw member list
R1_NEG_INDIFFERENT_CALLEES = {
    'mkeccl': 'partition refinement: splitting by a set and by its complement give the same partition',
    'qsort': 'reorders the members, the set is unchanged',
}

def _is_cclng_read(fn, res, x):
    if x.op != 'load': return False
    l = res.loc(x.ops[0])
    return l != ('global', 'cclng') and ir.root_of(l) == ('global', 'cclng')

def r1(ctx):
    rep = ctx.rep; prog = ctx.flex
    gl = set()
    for m in prog.modules: gl |= set(m.globals)
    for g in ('ccltbl', 'cclng', 'cclmap'):
        if g not in gl: rep.broken('C01.R1: global %s not found in flex' % g)
    readers = 0
    for fn in all_fns(prog):
        res = ir.Resolver(fn)
        loads = [x for x in fn.ins if x.op == 'load' and res.loc(x.ops[0]) == CCLTBL_MEMBER]
        escapes = []
        for c in fn.ins:
            if c.op != 'call': continue
            for a in c.ops:
                if isinstance(a, tuple) and a[0] in ('reg', 'cgep', 'ccast') and res.loc(flow.strip_casts(fn, a)) == CCLTBL_MEMBER:
                    escapes.append(c)
        for c in escapes:
            cal = c.callee if isinstance(c.callee, str) else '<indirect>'
            if cal in R1_NEG_INDIFFERENT_CALLEES:
                rep.ok('C01.R1', '%s: member pointer handed to %s (%s)' % (fn.name, cal, R1_NEG_INDIFFERENT_CALLEES[cal]))
            else:
                rep.fail('C01.R1', 'C01.R1:%s:%s:ccltbl->%s' % (src_file(fn), fn.name, cal), where(c),
                         '%s passes a pointer to raw class members to %s, which is not known to be indifferent to negation' % (fn.name, cal))
        if not loads: continue
        readers += 1
        if fn.name in R1_EXCEPT:
            rep.ok('C01.R1', '%s reads raw members: excepted (%s)' % (fn.name, R1_EXCEPT[fn.name])); continue
        cfg = prog.cfg(fn, cut=False)
        ng_reads = [x for x in fn.ins if _is_cclng_read(fn, res, x)]
        # (b) the function's result is computed from cclng
        rstores, rdirect = ret_value_stores(fn)
        def from_ng(v):
            return any(d in ng_reads for d in flow.value_slice(fn, v))
        result_dep = bool(rstores or rdirect) and all(from_ng(s.ops[0]) for s in rstores) and all(from_ng(r.ops[0]) for r in rdirect)
        for L in loads:
            ctl = False
            for br, t in cfg.control_deps_closure(L.blk):
                if any(d in ng_reads for d, _ in flow.cond_loads(fn, br, res)): ctl = True; break
            if ctl or result_dep:
                rep.ok('C01.R1', '%s: member load at %s %s' % (fn.name, where(L), 'is controlled by a test of cclng[]' if ctl else 'feeds a result computed from cclng[]'))
            else:
                rep.fail('C01.R1', 'C01.R1:%s:%s:ccltbl' % (src_file(fn), fn.name), where(L),
                         '%s reads the members of a character class but never consults its negation flag cclng[]: a negated class is treated as the set of its listed members' % fn.name,
                         replay_input='%%\n[^a]{+}[b]   printf("U");\n.|\\n   printf("D");\n%%  (input "abcz": flex output matches only a and b with the first rule)'
                         if fn.name == 'ccl_set_union' else None)
    rep.setcount('class_member_readers', readers)

# =============================================================================== R2

CTYPE_BITS = {256: 'upper', 512: 'lower', 1024: 'alpha', 2048: 'digit', 4096: 'xdigit', 8192: 'space', 16384: 'print',
              32768: 'graph', 1: 'blank', 2: 'cntrl', 4: 'punct', 8: 'alnum'}      # glibc <ctype.h> _IS* masks, little endian
CTYPE_FUNCS = {'is' + n: n for n in CTYPE_BITS.values()}

def _ctype_word(c):
    if not (0 <= c < 128): return 0
    w = 0
    for bit, name in CTYPE_BITS.items():
        if lex.POSIX[name](c): w |= bit
    return w

class CondEval:
    """evaluates branch conditions of a ccl_expr action for a concrete character c and case-insensitivity flag"""
    def __init__(s, fn, cvar, c, ci, csize=256):
        s.fn = fn; s.res = ir.Resolver(fn); s.cvar = cvar; s.c = c; s.ci = ci; s.csize = csize
    def ev(s, v, depth=0):
        fn = s.fn
        if depth > 30: raise Unrecognised('condition too deep')
        if v[0] == 'int': return v[1]
        if v[0] != 'reg': raise Unrecognised('operand %r in a class-expression condition' % (v,))
        d = fn.def_of(v)
        if d is None: raise Unrecognised('undefined %r' % (v,))
        op = d.op
        if op == 'load':
            l = s.res.loc(d.ops[0])
            if l == ('local', s.cvar): return s.c
            if l[0] == 'field' and l[2] == 'csize' and ir.root_of(l) == ('global', 'ctrl'): return s.csize
            if l[0] == 'elem' and l[1][0] == 'deref' and l[1][1][0] == 'call' and l[1][1][1] == '__ctype_b_loc':
                g = fn.def_of(d.ops[0])
                if g is None or g.op != 'getelementptr' or len(g.ops) != 2: raise Unrecognised('ctype table access form')
                return _ctype_word(_s(s.ev(g.ops[1], depth + 1), 64))
            if l[0] == 'elem' and l[1] == ('deref', ('global', '_sf_stk')): return ('SF',)
            raise Unrecognised('load of %s in a class-expression condition' % ir.loc_str(l))
        if op in ('zext', 'sext', 'trunc'):
            return s.ev(d.ops[0], depth + 1)
        if op in ('and', 'or', 'xor', 'add', 'sub'):
            a = s.ev(d.ops[0], depth + 1); b = s.ev(d.ops[1], depth + 1)
            if a == ('SF',) or b == ('SF',):
                k = b if a == ('SF',) else a
                if op == 'and' and k == 1: return 1 if s.ci else 0       # _SF_CASE_INS
                raise Unrecognised('scanner-flag test with mask %r' % (k,))
            return {'and': a & b, 'or': a | b, 'xor': a ^ b, 'add': a + b, 'sub': a - b}[op]
        if op == 'icmp':
            a = s.ev(d.ops[0], depth + 1); b = s.ev(d.ops[1], depth + 1)
            if isinstance(a, tuple) or isinstance(b, tuple): raise Unrecognised('flag compare')
            n = _bits(d.ty); sa, sb, ua, ub = _s(a, n), _s(b, n), _u(a, n), _u(b, n)
            return int({'eq': ua == ub, 'ne': ua != ub, 'slt': sa < sb, 'sle': sa <= sb, 'sgt': sa > sb, 'sge': sa >= sb,
                        'ult': ua < ub, 'ule': ua <= ub, 'ugt': ua > ub, 'uge': ua >= ub}[d.pred])
        if op == 'call' and isinstance(d.callee, str):
            if d.callee in CTYPE_FUNCS and len(d.ops) == 1:
                c = s.ev(d.ops[0], depth + 1)
                return int(bool(0 <= c < 128 and lex.POSIX[CTYPE_FUNCS[d.callee]](c)))
            if d.callee == 'isascii' and len(d.ops) == 1:
                return int(0 <= s.ev(d.ops[0], depth + 1) < 128)
        raise Unrecognised('%s in a class-expression condition' % (d.callee if op == 'call' else op))

def _block_runs(cfg, R, entry, blk, E, visiting=frozenset()):
    """does blk execute (in some iteration) for the character/flag fixed in evaluator E?  Recursion over control dependence inside region R."""
    if blk is entry: return True
    deps = [(br, t) for br, t in cfg.control_deps(blk) if br.blk in R and br.blk is not blk and br.blk not in visiting]
    if not deps: return True
    for br, t in deps:
        if br.op != 'br' or not br.ops: raise Unrecognised('control by %s' % br.op)
        cv = E.ev(br.ops[0])
        taken = br.targets[0] if (cv & 1) else br.targets[1]
        if taken == t.name and _block_runs(cfg, R, entry, br.blk, E, visiting | {blk}): return True
    return False

def added_set(prog, fn, label_blk, ci):
    """set of characters c for which the action starting at label_blk calls ccladd(currccl, c)"""
    cfg = prog.cfg(fn, cut=False)
    R = set(region(cfg, label_blk))
    res = ir.Resolver(fn)
    out = set(); calls = 0
    for b in R:
        for x in b.ins:
            if x.op != 'call' or x.callee != 'ccladd': continue
            calls += 1
            a0 = fn.def_of(x.ops[0])
            if a0 is None or a0.op != 'load' or res.loc(a0.ops[0]) != ('global', 'currccl'):
                raise Unrecognised('ccladd on something other than currccl')
            cvar = local_slot(fn, x.ops[1])
            if cvar is None: raise Unrecognised('ccladd of a non-local character')
            # the character variable sweeps 0..csize-1: initialised to 0 in the region, bounded by ctrl.csize (checked through the loop condition)
            inits = [s_ for s_ in stores_to_slot(fn, cvar) if s_.blk in R and s_.ops[0][0] == 'int']
            if [s_.ops[0][1] for s_ in inits] != [0]: raise Unrecognised('character loop does not start at 0')
            for c in range(256):
                if _block_runs(cfg, R, label_blk, b, CondEval(fn, cvar, c, ci)): out.add(c)
    return out, calls

def int_array(g):
    """integer list of a constant array global"""
    if g is None or g.init is None: return None
    if g.init[0] == 'cstr':
        t = g.init[1]; out = []; k = 0
        while k < len(t):
            if t[k] == '\\':
                if t[k + 1] == '\\': out.append(92); k += 2
                else: out.append(int(t[k + 1:k + 3], 16)); k += 3
            else: out.append(ord(t[k])); k += 1
        return out
    if g.init[0] == 'agg':
        return [int(x) for x in re.findall(r'\bi\d+ (-?\d+)', g.init[1])]
    if g.init[0] == 'other' and g.init[1] == 'zeroinitializer' and g.ty is not None and g.ty.k == 'arr':
        return [0] * g.ty.a
    return None

class Grammar:
    """what the LALR tables in parse.c's IR say: token -> states entered by shifting it -> default reduction -> action block"""
    def __init__(s, ctx):
        rep = ctx.rep; prog = ctx.flex
        s.fn = prog.fn('yyparse')
        if s.fn is None: rep.broken('yyparse not found')
        m = s.fn.mod
        s.tr = int_array(m.globals.get('yytranslate')); s.stos = int_array(m.globals.get('yystos'))
        s.defact = int_array(m.globals.get('yydefact')); s.r1 = int_array(m.globals.get('yyr1')); s.r2 = int_array(m.globals.get('yyr2'))
        if None in (s.tr, s.stos, s.defact, s.r1, s.r2): rep.broken('bison tables (yytranslate/yystos/yydefact/yyr1/yyr2) not found in parse.c IR')
        s.sw = biggest_switch(s.fn, least=40)
        if s.sw is None: rep.broken('reduction switch of yyparse not found')
        s.case = dict(s.sw.cases)
        s.tokens = {}
        try: hdr = ctx.art.source('parse.h')
        except Exception: hdr = ctx.art.source('parse.c')
        for mm in re.finditer(r'^\s*([A-Z][A-Z0-9_]*)\s*=\s*(\d+)\s*,?', hdr, re.M): s.tokens.setdefault(mm.group(1), int(mm.group(2)))
    def rule_of_token(s, name):
        """(rule number, action label) of the production `X: TOKEN` reduced right after shifting TOKEN"""
        if name not in s.tokens: raise Unrecognised('token %s is not declared in parse.h' % name)
        ext = s.tokens[name]
        if not (0 <= ext < len(s.tr)): raise Unrecognised('token %s=%d outside yytranslate' % (name, ext))
        sym = s.tr[ext]
        states = [st for st, a in enumerate(s.stos) if a == sym]
        rules = {s.defact[st] for st in states}
        if len(rules) != 1 or 0 in rules: raise Unrecognised('token %s: %d states, default reductions %s' % (name, len(states), sorted(rules)))
        r = rules.pop()
        if s.r2[r] != 1: raise Unrecognised('token %s: reduction %d has %d right-hand symbols' % (name, r, s.r2[r]))
        return r, s.case.get(r)

def r2(ctx):
    rep = ctx.rep; prog = ctx.flex
    sp = lex.parse_spec(ctx.art.source('scan.l'))
    G = Grammar(ctx)
    fn = G.fn
    lits = []
    for r in sp.rules:
        m = re.fullmatch(r'"\[:(\^?)([a-z]+):\]"', r.pat)
        if not m: continue
        lits.append((r, bool(m.group(1)), m.group(2)))
    have = {(neg, name) for _, neg, name in lits}
    for name in sorted(lex.POSIX):
        for neg in (False, True):
            if (neg, name) not in have:
                if not (neg and name in ('lower', 'upper')): rep.obl.setdefault('C01.R2', [0, 0])[0] += 1      # stands for both the case-sensitive and the caseless obligation
                rep.fail('C01.R2', 'C01.R2:scan.l:[:%s%s:]:missing' % ('^' if neg else '', name), 'scan.l',
                         'scan.l has no rule for the class expression [:%s%s:]; it falls through to the "bad character class expression" rule' % ('^' if neg else '', name))
    lhs = set()
    for r, neg, name in lits:
        lit = r.pat.strip('"')
        key = 'C01.R2:scan.l:%s' % lit
        if name not in lex.POSIX:
            rep.fail('C01.R2', key + ':name', 'scan.l:%d' % r.line, 'literal %s names no POSIX class' % lit); continue
        toks = re.findall(r'\breturn\s+([A-Z][A-Z0-9_]*)\s*;', r.action)
        if len(toks) != 1: rep.broken('C01.R2: cannot read the returned token of scan.l rule %s (%r)' % (lit, r.action[:60]))
        tok = toks[0]
        try:
            rule, label = G.rule_of_token(tok)
        except Unrecognised as e:
            rep.broken('C01.R2: %s' % e)
        lhs.add(G.r1[rule])
        P = lex.POSIX[name]
        for ci in (0, 1):
            if neg and ci and name in ('lower', 'upper'):
                continue       # documented as ambiguous in a case-insensitive scanner (flex warns and adds nothing)
            if label is None:
                got, calls = set(), 0      # production without action
            else:
                try:
                    got, calls = added_set(prog, fn, fn.bmap[label], ci)
                except Unrecognised as e:
                    rep.broken('C01.R2: action of production for %s (case %d of yyparse): %s' % (tok, rule, e))
            Pe = lex.POSIX['alpha'] if (ci and name in ('lower', 'upper')) else P
            want = {c for c in range(256) if bool(Pe(c)) != neg}
            tag = '%s%s' % (lit, ' (case-insensitive)' if ci else '')
            if got == want:
                rep.ok('C01.R2', '%s -> %s=%d -> symbol %d -> reduction %d -> %d ccladd site(s): adds exactly the %d characters of %s' % (
                    tag, tok, G.tokens[tok], G.tr[G.tokens[tok]], rule, calls, len(want), lit))
            else:
                miss = sorted(want - got); extra = sorted(got - want)
                def show(cs): return ','.join(repr(chr(c)) if 32 < c < 127 else '\\x%02x' % c for c in cs[:6]) + ('...' if len(cs) > 6 else '')
                w = fn.bmap[label].ins[0] if label else G.sw
                pass      # (Reporter.fail counts a repeated key as one more instance and reports it once)
                rep.fail('C01.R2', key, where(w),
                         '%s returns %s, whose production (reduction %d) adds a different set: %d missing (%s), %d extra (%s)' % (
                             tag, tok, rule, len(miss), show(miss), len(extra), show(extra)),
                         replay_input='%%%%\n[[:%s%s:]]+  printf("<%%s>", yytext);\n%%%%' % ('^' if neg else '', name))
    if len(lhs) > 1: rep.broken('C01.R2: class-expression tokens reduce to %d different nonterminals' % len(lhs))
    rep.setcount('posix_class_literals', len(lits))

# =============================================================================== R3

C_ESCAPES = {'b': 8, 'f': 12, 'n': 10, 'r': 13, 't': 9, 'a': 7, 'v': 11}

def r3(ctx):
    rep = ctx.rep; prog = ctx.flex
    fn = prog.fn('myesc')
    if fn is None: rep.broken('C01.R3: myesc not found')
    sw = biggest_switch(fn, least=3)
    if sw is None: rep.broken('C01.R3: escape switch of myesc not found')
    cfg = prog.cfg(fn, cut=False)
    cases = dict(sw.cases)
    rstores, _ = ret_value_stores(fn)
    for ch, want in sorted(C_ESCAPES.items()):
        key = 'C01.R3:misc.c:myesc:case-%s' % ch
        lab = cases.get(ord(ch))
        if lab is None:
            rep.fail('C01.R3', key, where(sw), "myesc has no case for '\\%s': the escape yields the letter itself" % ch); continue
        R = set(region(cfg, fn.bmap[lab]))
        vals = [s.ops[0] for s in rstores if s.blk in R]
        if len(vals) != 1 or vals[0][0] != 'int': rep.broken("C01.R3: case '%s' of myesc does not return a single constant" % ch)
        got = vals[0][1] & 255
        if got == want: rep.ok('C01.R3', "myesc case '%s' returns %d = '\\%s'" % (ch, got, ch))
        else: rep.fail('C01.R3', key, where(fn.bmap[lab].ins[0]), "myesc case '%s' returns %d, the C escape '\\%s' is %d" % (ch, got, ch, want))
    def numeric(tag, letters, want_digits, want_base):
        key = 'C01.R3:misc.c:myesc:%s' % tag
        labs = {cases.get(ord(c)) for c in letters}
        if None in labs or len(labs) != 1:
            rep.fail('C01.R3', key + ':cases', where(sw), 'myesc: the %s introducers %s do not share one case' % (tag, letters)); return
        R = set(region(cfg, fn.bmap[labs.pop()]))
        calls = [x for b in R for x in b.ins if x.op == 'call' and x.callee in ('strtoul', 'strtol')]
        if len(calls) != 1: rep.broken('C01.R3: %s arm of myesc: %d strtoul calls' % (tag, len(calls)))
        base = calls[0].ops[2]
        # digit loop: icmp sle/slt (load L), K with L initialised to a constant inside the arm
        found = None
        for b in R:
            for x in b.ins:
                if x.op == 'icmp' and x.pred in ('sle', 'slt') and x.ops[1][0] == 'int':
                    slot = local_slot(fn, x.ops[0])
                    if slot is None: continue
                    ini = [s.ops[0][1] for s in stores_to_slot(fn, slot) if s.blk in R and s.ops[0][0] == 'int']
                    if len(ini) == 1: found = (x, ini[0], x.ops[1][1] + (1 if x.pred == 'sle' else 0) - ini[0])
        if found is None: rep.broken('C01.R3: %s arm of myesc: digit loop bound not recognised' % tag)
        x, start, digits = found
        g = fn.def_of(flow.strip_casts(fn, calls[0].ops[0]))
        off = g.ops[1][1] if g is not None and g.op == 'getelementptr' and len(g.ops) == 2 and g.ops[1][0] == 'int' else None
        if base == ('int', want_base) and digits == want_digits and off == start:
            rep.ok('C01.R3', 'myesc %s: at most %d digits from offset %d, converted in base %d' % (tag, digits, start, want_base))
        else:
            rep.fail('C01.R3', key, where(x), 'myesc %s escape: %s digits from offset %s (conversion starts at offset %s) in base %s; documented: at most %d digits, base %d' % (
                tag, digits, start, off, base[1] if base[0] == 'int' else '?', want_digits, want_base))
    numeric('octal', '01234567', 3, 8)
    numeric('hex', 'x', 2, 16)

# =============================================================================== R4

def r4(ctx):
    rep = ctx.rep; prog = ctx.flex
    fn = prog.fn('yyparse')
    if fn is None: rep.broken('C01.R4: yyparse not found')
    res = ir.Resolver(fn); cfg = prog.cfg(fn, cut=False)
    anchor = [x for x in fn.ins if x.op == 'store' and res.loc(x.ops[1]) == ('global', 'default_rule')]
    if len(anchor) != 1: rep.broken('C01.R4: %d stores to default_rule in yyparse (the goal action is located by it)' % len(anchor))
    sw = biggest_switch(fn, least=40)
    lab = None
    for c, l in sw.cases:
        if cfg.dominates(fn.bmap[l], anchor[0].blk): lab = fn.bmap[l]
    if lab is None: rep.broken('C01.R4: the store to default_rule is not inside a reduction case')
    R = set(region(cfg, lab))
    mk = [x for b in R for x in b.ins if x.op == 'call' and x.callee == 'mkstate']
    br_calls = [x for b in R for x in b.ins if x.op == 'call' and x.callee == 'mkbranch']
    if len(mk) != 1 or len(br_calls) != 1: rep.broken('C01.R4: goal action has %d mkstate and %d mkbranch calls' % (len(mk), len(br_calls)))
    call = br_calls[0]
    key = 'C01.R4:parse.y:goal:default-rule-branch'
    # second argument: the default rule's state (value stored from the mkstate call)
    slot = local_slot(fn, call.ops[1])
    ok2 = slot is not None and any(s.ops[0] == ('reg', mk[0].res) for s in stores_to_slot(fn, slot))
    # first argument scset[i], result stored to scset[i] with the same index variable
    a0 = fn.def_of(call.ops[0])
    st = [s for s in call.blk.ins if s.op == 'store' and s.ops[0] == ('reg', call.res)]
    if not ok2 or a0 is None or a0.op != 'load' or res.loc(a0.ops[0]) != ('elem', ('deref', ('global', 'scset'))) \
       or len(st) != 1 or res.loc(st[0].ops[1]) != ('elem', ('deref', ('global', 'scset'))):
        rep.broken('C01.R4: mkbranch call in the goal action is not scset[i] = mkbranch(scset[i], <mkstate result>)')
    def index_slot(ptr):
        g = fn.def_of(ptr)
        return local_slot(fn, flow.int_origin(fn, g.ops[1])) or _global_slot(fn, res, flow.int_origin(fn, g.ops[1])) if g is not None and g.op == 'getelementptr' else None
    ia, ib = index_slot(a0.ops[0]), index_slot(st[0].ops[1])
    if ia is None or ia != ib: rep.broken('C01.R4: index of scset[] in the goal action not recognised')
    # controlling branches inside the action
    deps = [(br, t) for br, t in cfg.control_deps_closure(call.blk) if br.blk in R]
    loop = []; other = []
    for br, t in deps:
        d = fn.def_of(br.ops[0]) if br.ops else None
        if d is not None and d.op == 'icmp' and _slot_of(fn, res, d.ops[0]) == ia and _is_global_load(fn, res, d.ops[1], 'lastsc'):
            loop.append((br, t, d))
        else: other.append(br)
    if other:
        names = sorted({ir.loc_str(l) for br in other for _, l in flow.cond_loads(fn, br, res)})
        rep.fail('C01.R4', key, where(other[0]), 'the default rule is added to a start condition only under an extra condition on %s: start conditions failing it have no default rule' % (', '.join(names) or 'a computed value'))
        return
    if len(loop) != 1: rep.broken('C01.R4: loop over start conditions in the goal action not recognised')
    br, t, d = loop[0]
    inits = [s.ops[0] for s in _stores_to(fn, res, ia) if s.blk in R and cfg.dominates(s.blk, br.blk) and s.blk is not br.blk]
    good_bound = d.pred == 'sle' and t.name == br.targets[0]
    if inits == [('int', 1)] and good_bound:
        rep.ok('C01.R4', 'goal action: scset[i] = mkbranch(scset[i], default rule) for i = 1..lastsc, no other guard')
    else:
        rep.fail('C01.R4', key, where(d), 'the loop that adds the default rule runs from %s while i %s lastsc: not every start condition 1..lastsc gets the default rule' % (
            inits[0][1] if len(inits) == 1 and inits[0][0] == 'int' else '?', d.pred))

def _slot_of(fn, res, v):
    """identity of the variable a value is loaded from: ('local', name) or ('global', name)"""
    d = fn.def_of(flow.int_origin(fn, v))
    if d is None or d.op != 'load': return None
    l = res.loc(d.ops[0])
    return l if l[0] in ('local', 'global') else None
def _global_slot(fn, res, v):
    return _slot_of(fn, res, v)
def _is_global_load(fn, res, v, name):
    return _slot_of(fn, res, v) == ('global', name)
def _stores_to(fn, res, slot):
    return [s for s in fn.ins if s.op == 'store' and res.loc(s.ops[1]) == slot]

# =============================================================================== R5

def r5(ctx):
    rep = ctx.rep; prog = ctx.flex
    n = 0
    for fn in all_fns(prog):
        res = ir.Resolver(fn)
        for c in fn.ins:
            if c.op != 'call' or c.callee != 'qsort' or len(c.ops) != 4: continue
            if res.loc(flow.strip_casts(fn, c.ops[0])) != CCLTBL_MEMBER: continue
            n += 1
            cmp_ = flow.strip_casts(fn, c.ops[3])
            if cmp_ == ('glob', 'cclcmp'):
                rep.ok('C01.R5', '%s sorts class members with cclcmp' % where(c))
            else:
                rep.fail('C01.R5', 'C01.R5:%s:%s:qsort-ccltbl' % (src_file(fn), fn.name), where(c),
                         'class members are sorted with %s instead of cclcmp: the early break on NUL in symfollowset/sympartition/mkeccl needs NUL last' % (cmp_[1] if cmp_[0] == 'glob' else 'a computed comparator'))
    if n == 0: rep.broken('C01.R5: no qsort over ccltbl found (fullccl production)')
    f = prog.fn('cclcmp')
    if f is None: rep.broken('C01.R5: cclcmp not found')
    bad = None
    try:
        for a in range(256):
            for b in range(256):
                if a == b: continue
                ka = 256 if a == 0 else a; kb = 256 if b == 0 else b
                if sign(run_pure(f, [[a], [b]])) != sign(ka - kb): bad = (a, b); break
            if bad: break
    except Unrecognised as e:
        rep.broken('C01.R5: cclcmp cannot be evaluated: %s' % e)
    if bad is None: rep.ok('C01.R5', 'cclcmp evaluated on all 65280 pairs of distinct bytes: ascending, NUL last')
    else: rep.fail('C01.R5', 'C01.R5:misc.c:cclcmp:order', fwhere(f), 'cclcmp(%d,%d) has the wrong sign for "ascending with NUL last"' % bad)

# =============================================================================== R6

def dfaacc_int_stores(fn, res):
    """stores of an i32 into dfaacc[..] (the dfaacc_state member of the union)"""
    out = []
    for x in fn.ins:
        if x.op == 'store' and x.ty is not None and x.ty.k == 'int' and res.loc(x.ops[1]) == ('elem', ('deref', ('global', 'dfaacc'))):
            out.append(x)
    return out

def r6(ctx):
    rep = ctx.rep; prog = ctx.flex
    fn = prog.fn('snstods')
    if fn is None: rep.broken('C01.R6: snstods not found')
    res = ir.Resolver(fn); cfg = prog.cfg(fn, cut=False)
    key = 'C01.R6:dfa.c:snstods:accepting-number'
    sts = [x for x in dfaacc_int_stores(fn, res) if x.ops[0][0] != 'int']
    if len(sts) != 1: rep.broken('C01.R6: %d non-constant stores to dfaacc[].dfaacc_state in snstods' % len(sts))
    final = sts[0]
    acc = local_slot(fn, final.ops[0])
    if acc is None: rep.broken('C01.R6: the value stored to dfaacc_state is not a local accumulator')
    def is_elem_of_param(v):
        """v = load of P[idx] with P a pointer parameter; returns (param slot, index slot)"""
        d = fn.def_of(v)
        if d is None or d.op != 'load': return None
        l = res.loc(d.ops[0])
        if l[0] == 'elem' and l[1][0] == 'deref' and l[1][1][0] == 'local' and fn.is_param(l[1][1][1].replace('.addr', '')):
            g = fn.def_of(d.ops[0])
            ix = _slot_of(fn, res, g.ops[1]) if g is not None and g.op == 'getelementptr' and len(g.ops) == 2 else None
            return (l[1][1][1], ix)
        return None
    inits = []; reds = []
    for s in stores_to_slot(fn, acc):
        if not cfg.dominates(s.blk, final.blk) and final.blk not in {x.blk for x in cfg.reach(s)}: continue     # accumulator reused elsewhere (j is also a loop index)
        v = s.ops[0]
        d = fn.def_of(v)
        if d is not None and d.op == 'add' and ('int', 1) in d.ops and _is_global_load(fn, res, d.ops[0] if d.ops[1] == ('int', 1) else d.ops[1], 'num_rules'):
            inits.append(s); continue
        e = is_elem_of_param(v)
        if e is not None: reds.append((s, e)); continue
        # other stores to the same local that cannot reach the final store without being overwritten are irrelevant
        if _killed_before(cfg, fn, acc, s, final): continue
        rep.broken('C01.R6: store to the accumulator at %s is neither num_rules+1 nor an element of the accepting set' % where(s))
    # keep only definitions that reach the final load
    inits = [s for s in inits if not _killed_before(cfg, fn, acc, s, final)]
    if len(inits) != 1 or len(reds) != 1: rep.broken('C01.R6: accumulator has %d initialisations and %d reduction stores' % (len(inits), len(reds)))
    init = inits[0]; red, (pslot, islot) = reds[0]
    preds = cfg.pred[red.blk]
    if len(preds) != 1: rep.broken('C01.R6: reduction store is not in a simple if-arm')
    br = preds[0].ins[-1]
    c = fn.def_of(br.ops[0]) if br.op == 'br' and br.ops else None
    if c is None or c.op != 'icmp': rep.broken('C01.R6: reduction store is not guarded by an integer compare')
    ea, eb = is_elem_of_param(c.ops[0]), is_elem_of_param(c.ops[1])
    la, lb = local_slot(fn, c.ops[0]), local_slot(fn, c.ops[1])
    on_true = red.blk.name == br.targets[0]
    if ea == (pslot, islot) and lb == acc: form = c.pred                       # elem PRED acc
    elif eb == (pslot, islot) and la == acc: form = {'slt': 'sgt', 'sle': 'sge', 'sgt': 'slt', 'sge': 'sle'}.get(c.pred, c.pred)   # acc PRED elem -> elem PRED' acc
    else: rep.broken('C01.R6: compare guarding the reduction does not relate the loaded element and the accumulator')
    if not on_true: form = {'slt': 'sge', 'sle': 'sgt', 'sgt': 'sle', 'sge': 'slt'}.get(form, form)
    if form not in ('slt', 'sle', 'sgt', 'sge', 'ult', 'ule', 'ugt', 'uge'): rep.broken('C01.R6: compare predicate %s' % c.pred)
    # loop range 1..nacc
    hdr = [(b, t) for b, t in cfg.control_deps(preds[0]) if b.blk is not preds[0]]
    rng = None
    for b, t in hdr:
        h = fn.def_of(b.ops[0]) if b.ops else None
        if h is not None and h.op == 'icmp' and _slot_of(fn, res, h.ops[0]) == islot:
            bound = _slot_of(fn, res, h.ops[1])
            ini = [s.ops[0] for s in _stores_to(fn, res, islot) if cfg.dominates(s.blk, b.blk) and s.blk is not b.blk and cfg.dominates(init.blk, s.blk)]
            rng = (h, bound, ini, t.name == b.targets[0])
    if rng is None or rng[1] is None or rng[1][0] != 'local' or not fn.is_param(rng[1][1].replace('.addr', '')):
        rep.broken('C01.R6: loop over the accepting set not recognised')
    h, bound, ini, enter_true = rng
    if not cfg.dominates(init.blk, preds[0]): rep.broken('C01.R6: initialisation does not dominate the reduction loop')
    if form in ('slt', 'sle'):
        if ini == [('int', 1)] and h.pred == 'sle' and enter_true:
            rep.ok('C01.R6', 'snstods: dfaacc_state = min over %s[1..%s] (store on the true edge of element %s accumulator), accumulator starts at num_rules+1' % (
                pslot.replace('.addr', ''), bound[1].replace('.addr', ''), 'slt' if form == 'slt' else 'sle'))
        else:
            rep.fail('C01.R6', key + ':range', where(h), 'the minimum reduction in snstods runs from %s while index %s %s: not all of accset[1..nacc] is considered' % (
                ini[0][1] if len(ini) == 1 and ini[0][0] == 'int' else '?', h.pred, bound[1].replace('.addr', '')))
    else:
        rep.fail('C01.R6', key, where(c), 'the accepting number of a DFA state is updated when the element is %s the accumulator (starting from num_rules+1): '
                 'this is not the minimum over the accepting set, so the first-listed rule does not win ties' % ('greater than' if form in ('sgt', 'ugt') else 'greater than or equal to'),
                 replay_input='%%\nab   printf("1");\n[a-z]+   printf("2");\n%%  (input "ab": rule 1 must win)')

def _killed_before(cfg, fn, slot, s, use):
    """every path from store s to instruction `use` passes another store to the same slot"""
    others = [x for x in stores_to_slot(fn, slot) if x is not s]
    return use not in cfg.reach(s, avoid=others)

# =============================================================================== driver

def run(ctx):
    rep = ctx.rep
    prog = ctx.flex
    r1(ctx); r2(ctx); r6(ctx); r3(ctx); r4(ctx); r5(ctx)
    import tbl
    tbl.rule_language(ctx, 'C01.R7')
    rep.setcount('flex_translation_units', len(prog.modules))
    rep.setcount('flex_functions', len(all_fns(prog)))
    rep.floor('C01.R1', 9, 'member loads in ccl_contains, ccladd, ccl_set_union(2), symfollowset(2), sympartition(2), ccl2ecl + 5 pointer hand-offs')
    rep.floor('C01.R2', 46, '24 class literals, each under case-sensitive and case-insensitive matching (negated lower/upper only case-sensitive)')
    rep.floor('C01.R3', 9, '7 letter escapes + octal + hex')
    rep.floor('C01.R4', 1, 'goal action')
    rep.floor('C01.R5', 2, 'qsort in the fullccl production + cclcmp')
    rep.floor('C01.R6', 1, 'snstods')
    rep.floor('C01.R7', 80, 'language probes (8 rule sets) x table representations')
    rep.undecided += ['the token stream of a generated scanner for any rule set and input (longest match, tie-break at run time, back-up)',
                      'NFA construction for concatenation, alternation, closures, counted repetition, {name} expansion, (?flags:) groups',
                      'equivalence-class construction (mkeccl/mkechar) and table compression',
                      'ctype behaviour outside the C locale (the class tables are evaluated against the POSIX-locale definition of each class)',
                      'R1 checks that negation is consulted, not that each branch interprets it correctly']
    rep.assumptions += ['clang -O0 IR of flex is a faithful rendering of the C sources (parse.c from bison, stage1scan.c from scan.l)',
                        'glibc <ctype.h> bit masks (_ISupper=0x100 ... _ISalnum=0x8) when is*() are macros; _SF_CASE_INS is bit 0 of the scanner-flag word',
                        'bison table semantics: yystos[state] is the accessing symbol, yydefact[state] the default reduction']
    return rep.finish('other',
        'Generator-side necessary conditions of longest-match/first-rule tokenisation and of the class/escape language, decided on the LLVM IR of flex '
        '(21 translation units incl. parse.c and stage1scan.c) and on scan.l through the flex-language model: negation is consulted by every reader of '
        'class members; each POSIX class literal is traced through token, LALR tables and reduction code and the added character set is computed for all '
        '256 characters and compared with the class definition; myesc escape table; default rule reaches every start condition; class members sorted with '
        'a comparator evaluated exhaustively; accepting number is a minimum reduction.')
