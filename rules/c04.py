"""C04 - NUL bytes and bytes >= 0x80 are ordinary input characters.

R1  jam on NUL sets the scan position in every mode: in yylex, on every path from "yy_try_NUL_trans() returned 0"
    the scan-position local (the pointer local whose value YY_DO_BEFORE_ACTION stores to yy_c_buf_p) is assigned
    before it is loaded.  At that point it still points past the NUL, so a missing assignment makes the token
    swallow the NUL (D2).  Also: every path from the head of the scan loop to the call of yy_try_NUL_trans passes
    yy_get_previous_state (the NUL transition is tried from the recomputed state).
    Jam test: yy_try_NUL_trans returns 0 for exactly the table entries on which the match loop of the same variant stops
    (concrete evaluation on sample entries; full tables encode a jam as the negated state).
R2  two sentinels wherever the end of valid text is established: yy_get_next_buffer and yy_flush_buffer store 0 at
    yy_ch_buf[n] and yy_ch_buf[n+1] on every path from a store to yy_n_chars to the return; yy_scan_bytes does so on
    its copy before it calls yy_scan_buffer; the shift in yyunput_r moves yy_n_chars + 2 bytes.
R3  the NUL-versus-end-of-buffer test precedes every refill: each call of yy_get_next_buffer is dominated by a pointer
    comparison of yy_c_buf_p with &yy_ch_buf[yy_n_chars] and sits on one side of it.
R4  7-bit refusal (flex itself): ccladd checks the character before storing it into ccltbl; in mkstate every path to
    the return that avoids check_char takes the `sym < 0` (class) or `sym == SYM_EPSILON` edge; check_char refuses
    characters >= ctrl.csize.
R6  the three places that make DFA transitions (match loop, yy_get_previous_state, yy_try_NUL_trans) record the same
    backing-up information (yy_last_accepting_state / yy_last_accepting_cpos).
R7  the saved copies in the buffer object (yy_buffer_state.yy_n_chars, .yy_buf_pos) are only read to reload the scanner
    registers; R3's end pointer is formed from the register.
R9  the result of getc() is compared with EOF at its full int width (no truncation to 8 bits before the test).
R5  input bytes index tables unsigned; yy_ec is indexed by input bytes only (no constant arm, no value that already went
    through a table).  Then: in yylex / yy_get_previous_state / yy_try_NUL_trans every byte loaded through a
    pointer into the buffer that flows into the index of a scanner table is zero-extended, never sign-extended.
"""
import os, re
import ir, flow, variants
from common import where, fwhere, VERIF
import c03
from c03 import Scanner, skel, norm, canon, fn_role, cell_role, first_ins, witness, loops, outermost_loop_header

# ---------------------------------------------------------------- R1

def nul_zero_edges(sc, lex):
    """[(call, branch, zero-successor block)] for every call of yy_try_NUL_trans in yylex"""
    a = sc.fa(lex); out = []
    for call in sc.calls(lex, 'NUL'):
        vals = {call.res}; locs = set()
        for u in lex.uses().get(call.res, []):
            if u.op == 'store' and u.ops[0] == ('reg', call.res):
                l = a.loc(u.ops[1])
                if l[0] == 'local': locs.add(l[1])
        for L in locs:
            # the local must not be assigned anything else (it is the "next state" temporary)
            for x in a.local_loads(L): vals.add(x.res)
        for b in lex.blocks:
            br = b.ins[-1]
            if br.op != 'br' or not br.ops: continue
            d = lex.def_of(br.ops[0])
            if d is None or d.op != 'icmp' or d.pred not in ('eq', 'ne'): continue
            x, y = d.ops
            if y == ('int', 0) and x[0] == 'reg' and x[1] in vals: pass
            elif y == ('null',) and x[0] == 'reg' and x[1] in vals: pass      # -CF: the state is a pointer
            else: continue
            zero = br.targets[0] if d.pred == 'eq' else br.targets[1]
            out.append((call, br, lex.bmap[zero]))
    return out

def scan_position_locals(sc, lex):
    """pointer locals of yylex whose loaded value is stored, as it is, to yy_c_buf_p - directly or by a callee that
    stores the corresponding parameter to yy_c_buf_p (yy_do_before_action in the c99/go back ends)"""
    a = sc.fa(lex); out = set()
    def local_of(v):
        d = lex.def_of(v)
        if d is not None and d.op == 'load':
            l = a.loc(d.ops[0])
            if l[0] == 'local' and l[1] in a.locals: return l[1]
        return None
    for st in a.cell_stores('CBUFP'):
        L = local_of(st.ops[0])
        if L: out.add(L)
    for c in lex.ins:
        if c.op not in ('call', 'invoke') or not isinstance(c.callee, str): continue
        g = sc.mod.functions.get(c.callee)
        if g is None or g is lex: continue
        ga = None
        for k, arg in enumerate(c.ops):
            L = local_of(arg)
            if not L or k >= len(g.params) or not g.params[k][1]: continue
            if ga is None: ga = sc.fa(g)
            pl = g.params[k][1] + '.addr'
            for st in ga.cell_stores('CBUFP'):
                d = g.def_of(st.ops[0])
                if d is not None and d.op == 'load' and ga.loc(d.ops[0]) == ('local', pl): out.add(L)
    return out

_ml_cache = {}
def mode_label(v):
    """label for keys only (never for a verdict): the match-loop mode symbols flex lists at the top of the generated file"""
    if v.name not in _ml_cache:
        syms = set()
        try:
            with open(v.src, errors='replace') as f:
                for k, ln in enumerate(f):
                    if k > 120: break
                    m = re.match(r'/\* (M4_MODE_\w+) \*/', ln)
                    if m: syms.add(m.group(1)[len('M4_MODE_'):])
        except Exception:
            pass
        lab = [x for x in ('FULLSPD', 'FIND_ACTION_FULLTBL', 'FIND_ACTION_REJECT', 'FIND_ACTION_COMPRESSED') if x in syms]
        lab += [x for x in ('INTERACTIVE', 'NO_INTERACTIVE') if x in syms]
        _ml_cache[v.name] = '+'.join(lab) or 'mode-unknown'
    return _ml_cache[v.name]

def r1(ctx, sc, lex):
    rep = ctx.rep; v = sc.v; n = 0
    a = sc.fa(lex); cfg = sc.prog.cfg(lex)
    edges = nul_zero_edges(sc, lex)
    if not edges:
        rep.broken('%s: no test of the result of yy_try_NUL_trans() in %s' % (v.name, lex.name))
    sp = scan_position_locals(sc, lex)
    if not sp:
        rep.broken('%s: no pointer local of %s is stored to yy_c_buf_p (scan-position local not found)' % (v.name, lex.name))
    for call, br, zb in edges:
        for L in sorted(sp):
            n += 1
            kills = a.local_stores(L); uses = set(a.local_loads(L))
            r = cfg.reach(first_ins(zb), avoid=kills, include_start=True)
            bad = [x for x in r if x in uses]
            key = 'C04.R1:%s:yylex:jam-on-NUL:%s' % (skel(v), mode_label(v))
            if bad:
                best = None
                for x in bad:
                    p = cfg.path(first_ins(zb), lambda y, x=x: y is x, avoid=kills, include_start=True)
                    if p and (best is None or len(p) < len(best[1])): best = (x, p)
                x, p = best
                rep.fail('C04.R1', key, where(x),
                         'when yy_try_NUL_trans() returns 0 (jam on NUL, line %s) the scan-position local %s is loaded at line %s without having been '
                         'assigned; it still points past the NUL, so the token swallows the NUL [variant %s; options %s]' % (br.line, L, x.line, v.name, ' '.join(v.options)),
                         witness=['%s:%s' % (y.blk.name, y.line) for y in p], variant=v.describe(),
                         replay_input='%option batch (compressed tables, no REJECT); rules a+ and b; input "aa\\0b\\0ab": NULs are swallowed into the a+ tokens')
            else:
                rep.ok('C04.R1', '%s yylex: jam-on-NUL edge@%s assigns %s before any load' % (v.name, br.line, L))
    # the NUL transition is tried from the recomputed state
    hdr = outermost_loop_header(cfg, sc.calls(lex, 'NUL')[0].blk)
    gps = sc.calls(lex, 'GPS')
    for call in sc.calls(lex, 'NUL'):
        n += 1
        key = 'C04.R1:%s:yylex:NUL-transition-from-recomputed-state' % skel(v)
        if hdr is None:
            rep.broken('%s: yy_try_NUL_trans() is not inside the scan loop of %s' % (v.name, lex.name))
        r = cfg.reach(first_ins(hdr), avoid=gps, include_start=True)
        if call in r:
            rep.fail('C04.R1', key, where(call), 'yy_try_NUL_trans() can be reached from the head of the scan loop without yy_get_previous_state() [variant %s]' % v.name,
                     witness=witness(cfg, first_ins(hdr), call, avoid=gps, include_start=True), variant=v.describe())
        else:
            rep.ok('C04.R1', '%s yylex: yy_try_NUL_trans@%s is preceded by yy_get_previous_state on every path of the iteration' % (v.name, call.line))
    return n

# ---------------------------------------------------------------- R1 (jam test)

def table_root(sc, fn, ptr):
    """canonical name of the scanner table a pointer points into (None if it is not a table)"""
    a = sc.fa(fn); v = ptr; depth = 0
    while depth < 12:
        depth += 1
        if not isinstance(v, tuple): return None
        if v[0] == 'glob': return canon(v[1]) if canon(v[1]) in c03.TABLES else None
        if v[0] in ('cgep', 'ccast'): v = v[2]; continue
        if v[0] != 'reg': return None
        d = fn.def_of(v)
        if d is None: return None
        if d.op in ('getelementptr', 'bitcast'): v = d.ops[0]; continue
        if d.op == 'load':
            l = a.loc(d.ops[0])
            n = l[1] if l[0] == 'global' else l[2] if l[0] == 'field' else None
            return canon(n) if n and canon(n) in c03.TABLES else None
        return None
    return None

def table_loaded(sc, fn, val):
    """(table name, load) if the integer value is a scanner-table entry (through casts), else (None, None)"""
    d = fn.def_of(flow.int_origin(fn, val))
    if d is not None and d.op == 'load':
        t = table_root(sc, fn, d.ops[0])
        if t: return t, d
    return None, None

def match_loop_test(sc, lex):
    """the exit test of the match loop of yylex when it is a comparison of the new state with a constant:
    (icmp, table name or None, how) where how = 'reg' (the table entry itself, full tables: while ((s = yy_nxt[..]) > 0))
    or 'local' (a reload of the state local, compressed batch: while (s != YY_JAMSTATE))"""
    a = sc.fa(lex); cfg = sc.prog.cfg(lex)
    state_locals = set()
    for c in sc.calls(lex, 'GPS', 'NUL'):
        for u in lex.uses().get(c.res, []):
            if u.op == 'store' and u.ops[0] == ('reg', c.res):
                l = a.loc(u.ops[1])
                if l[0] == 'local': state_locals.add(l[1])
    lp = loops(cfg)
    # the match loop proper: the innermost loop around each read of a buffer byte that feeds a table index
    match_bodies = []
    a.table_locals()
    feeders = []
    for g in lex.ins:
        if g.op == 'getelementptr' and a.is_table_ptr(g.ops[0]):
            for idx in g.ops[1:]:
                for ext, ld in byte_extensions(sc, lex, idx):
                    if ld not in feeders: feeders.append(ld)
    for y in feeders:
        inner = None
        for h, bd in lp.items():
            if y.blk in bd and (inner is None or len(bd) < len(inner)): inner = bd
        if inner is not None and inner not in match_bodies: match_bodies.append(inner)
    out = []
    for x in lex.ins:
        if x.op != 'icmp' or x.ops[1][0] != 'int': continue
        br = x.blk.ins[-1]
        if br.op != 'br' or br.ops != [('reg', x.res)]: continue
        # innermost loop that contains the test and a read of a buffer byte, with one successor leaving it
        body = None
        for bd in match_bodies:
            if x.blk in bd and (body is None or len(bd) < len(body)): body = bd
        if body is None or all(t in body for t in cfg.succ[x.blk]): continue
        t, ld = table_loaded(sc, lex, x.ops[0])
        if t:
            stored = any(u.op == 'store' and a.loc(u.ops[1])[0] == 'local' and a.loc(u.ops[1])[1] in state_locals
                         for r_ in [flow.int_origin(lex, x.ops[0])[1], x.ops[0][1]] for u in lex.uses().get(r_, []))
            if stored or True: out.append((x, t, 'reg', body))
            continue
        d = lex.def_of(flow.int_origin(lex, x.ops[0]))
        if d is not None and d.op == 'load' and a.loc(d.ops[0])[0] == 'local' and a.loc(d.ops[0])[1] in state_locals:
            out.append((x, None, 'local', body))
    return out

def r1_jam(ctx, sc, lex):
    """the NUL step and the match loop classify the same state values as "no transition".  In full tables a jam is the
    negated state number, so the match loop runs while the table entry is > 0; yy_try_NUL_trans, which reads the same
    table, must return 0 (jam) for exactly the entries on which the match loop stops.  Both are evaluated concretely on
    sample entries (negative, zero, positive and the constants of the two comparisons)."""
    rep = ctx.rep; v = sc.v
    nul = sc.fn('NUL')
    tests = match_loop_test(sc, lex)
    if nul is None or not tests:
        c03.vac(rep, v, 'C04.R1 jam test: the match loop of yylex does not end on a comparison of the new state with a constant (interactive compressed tables test yy_base[], -CF walks a pointer)')
        return 0
    na = sc.fa(nul); ncfg = sc.prog.cfg(nul)
    # the store of the new state in yy_try_NUL_trans: the last assignment of a table entry to a local before the return
    cands = []
    for st in nul.ins:
        if st.op != 'store': continue
        l = na.loc(st.ops[1])
        if l[0] != 'local': continue
        t, ld = table_loaded(sc, nul, st.ops[0])
        if not t: continue
        others = [y for y in na.local_stores(l[1]) if y is not st]
        if any(y.op == 'ret' for y in ncfg.reach(st, avoid=others)): cands.append((st, l[1], t))
    n = 0
    for x, t, how, body in tests:
        mine = [c for c in cands if t is None or c[2] == t]
        if t is not None and not mine:
            c03.vac(rep, v, 'C04.R1 jam test: yy_try_NUL_trans reads another table (%s) than the match loop (%s): entries are encoded differently' % (sorted({c[2] for c in cands}), t))
            continue
        if not mine: continue
        st, S, tn = mine[-1]
        consts = {x.ops[1][1]}
        for y in nul.ins:
            if y.op == 'icmp' and y.ops[1][0] == 'int': consts.add(y.ops[1][1])
        samples = sorted({-3, -1, 0, 1, 5} | {c + d for c in consts for d in (-1, 0, 1)})
        n += 1
        key0 = 'C04.R1:%s:yy_try_NUL_trans:' % skel(v)
        bad = None
        for val in samples:
            # match loop: does it go on with this entry?
            a = sc.fa(lex)
            regs = {}
            if how == 'reg':
                o = flow.int_origin(lex, x.ops[0]); regs[o[1]] = val
                d = lex.def_of(x.ops[0])
                chain = []
                while d is not None and d.op in ('sext', 'zext', 'trunc'): chain.append(d); d = lex.def_of(d.ops[0])
                for d in reversed(chain): regs[d.res] = c03.step_value(lex, a, d, {}, regs, None)
            else:
                d = lex.def_of(x.ops[0]); chain = []
                while d is not None and d.op in ('sext', 'zext', 'trunc'): chain.append(d); d = lex.def_of(d.ops[0])
                regs[d.res] = val
                for d in reversed(chain): regs[d.res] = c03.step_value(lex, a, d, {}, regs, None)
            c = c03.step_value(lex, a, x, {}, regs, None)
            if c is None: rep.broken('%s: the exit test of the match loop is not a function of the new state' % v.name)
            br = x.blk.ins[-1]
            goes_on = lex.bmap[br.targets[0] if c else br.targets[1]] in body
            # yy_try_NUL_trans returns 0 for jam and the new state otherwise: an entry 0 on which the loop would go on cannot
            # be told from a jam by the return value (0 is not a state number in that representation): not a sample
            if val == 0 and goes_on: continue
            # NUL step: what does it return for this entry?
            regs = {}
            if st.ops[0][0] == 'reg': regs[st.ops[0][1]] = val
            rets = c03.simulate(sc, nul, st, {S: val}, regs=regs)
            if ('limit',) in rets or None in rets or not rets:
                rep.broken('%s: yy_try_NUL_trans is not a function of the table entry (returns %s for %d)' % (v.name, sorted(map(str, rets)), val))
            trans = {r != 0 for r in rets}
            if trans != {goes_on} and bad is None: bad = (val, goes_on, sorted(rets))
        if bad:
            val, goes_on, rets = bad
            what = 'jam-test-misses-negative-states' if val < 0 and not goes_on else 'jam-test-disagrees-with-match-loop'
            rep.fail('C04.R1', key0 + what, where(st), 'for the %s entry %d the match loop of yylex (test at line %s) %s, but yy_try_NUL_trans returns %s (%s): a jam on NUL is taken for a transition and the match loop is re-entered with a state that is not one [variant %s]' % (
                tn, val, x.line, 'goes on' if goes_on else 'stops (no transition)', rets, 'a transition' if any(rets) else 'jam', v.name), variant=v.describe(),
                replay_input='-Cfe scanner (full table with equivalence classes, no yy_NUL_trans), rule [a-z]+, input "abc\\0"')
        else:
            rep.ok('C04.R1', '%s yy_try_NUL_trans and the match loop (test@%s) agree on %d sample %s entries: jam <=> the loop stops' % (v.name, x.line, len(samples), tn))
    return n

# ---------------------------------------------------------------- R2

def index_term(sc, fn, v, depth=0):
    """(symbolic term, constant offset) of an integer index expression"""
    a = sc.fa(fn)
    if depth > 12: return (('?',), 0)
    if v[0] == 'int': return (None, v[1])
    d = fn.def_of(v)
    if d is None: return (v, 0)
    if d.op in ('sext', 'zext', 'trunc'): return index_term(sc, fn, d.ops[0], depth + 1)
    if d.op == 'add':
        x, y = d.ops
        if y[0] == 'int':
            t, o = index_term(sc, fn, x, depth + 1); return (t, o + y[1])
        if x[0] == 'int':
            t, o = index_term(sc, fn, y, depth + 1); return (t, o + x[1])
    if d.op == 'load':
        l = a.loc(d.ops[0])
        if l[0] == 'local':
            sts = a.local_stores(l[1])
            if len(sts) == 1 and sts[0].ops[0] != v:
                return index_term(sc, fn, sts[0].ops[0], depth + 1)
            return (l, 0)
        return (flow._freeze(l), 0)
    return (('reg', d.res), 0)

def gep_parts(sc, fn, p):
    """(base term, base role, index term, offset) of a byte address `base[idx]`, or None"""
    a = sc.fa(fn)
    d = fn.def_of(p)
    if d is None or d.op != 'getelementptr' or len(d.ops) != 2: return None
    bd = fn.def_of(flow.strip_casts(fn, d.ops[0]))
    if bd is None or bd.op != 'load': return None
    bl = a.loc(bd.ops[0])
    if bl[0] == 'local':
        # `ch_buf = b->yy_ch_buf; ch_buf[n] = 0;` - a named temporary (assigned exactly once, address never taken) stands for
        # the value assigned to it (neutral diff m1P4)
        tv = flow.named_temporary(fn, bd)
        td = fn.def_of(flow.strip_casts(fn, tv)) if tv is not None and tv[0] == 'reg' else None
        if td is not None and td.op == 'load' and a.loc(td.ops[0])[0] != 'local': bl = a.loc(td.ops[0])
    t, o = index_term(sc, fn, d.ops[1])
    return (flow._freeze(bl) if bl[0] != 'local' else bl, cell_role(bl), t, o)

def sentinel_pairs(sc, fn):
    """[(store at n, store at n+1, base term, base role)]: two stores of the constant 0 byte through the same base
    whose indices differ by one"""
    a = sc.fa(fn)
    zs = []
    for x in fn.ins:
        if x.op == 'store' and a.is_byte(x.ty) and x.ops[0] == ('int', 0):
            g = gep_parts(sc, fn, x.ops[1])
            if g: zs.append((x, g))
    out = []
    for x, (b1, r1_, t1, o1) in zs:
        for y, (b2, r2_, t2, o2) in zs:
            if b1 == b2 and t1 == t2 and o2 == o1 + 1: out.append((x, y, b1, r1_))
    return out

def r2(ctx, sc):
    rep = ctx.rep; v = sc.v; n = 0
    for role, nm in (('GNB', 'yy_get_next_buffer'), ('FLUSH', 'yy_flush_buffer')):
        fn = sc.fn(role)
        if fn is None:
            rep.broken('%s: %s not found' % (v.name, nm))
        a = sc.fa(fn); cfg = sc.prog.cfg(fn)
        pairs = [p for p in sentinel_pairs(sc, fn) if p[3] == 'CHBUF']
        ncs = a.cell_stores('NCHARS')
        if not ncs:
            rep.broken('%s: %s does not store yy_n_chars' % (v.name, nm))
        for k, which in ((0, 'first'), (1, 'second')):
            n += 1
            key = 'C04.R2:%s:%s:%s-sentinel' % (skel(v), nm, which)
            if not pairs:
                rep.fail('C04.R2', key, fwhere(fn), '%s has no pair of stores of 0 at yy_ch_buf[n] and yy_ch_buf[n+1] [variant %s]' % (nm, v.name), variant=v.describe())
                continue
            good = None; badw = None
            for p in pairs:
                s_ = p[k]; bad = None
                for st in ncs:
                    r = cfg.reach(st, avoid=[s_])
                    rets = [x for x in r if x.op == 'ret']
                    if rets: bad = (st, rets[0]); break
                if bad is None: good = p; break
                badw = (p, bad)
            if good:
                rep.ok('C04.R2', '%s %s: %s sentinel store@%s on every path from a store of yy_n_chars (%d) to return' % (v.name, nm, which, good[k].line, len(ncs)))
            else:
                p, (st, rt) = badw
                rep.fail('C04.R2', key, where(st), '%s can return after setting yy_n_chars (line %s) without storing the %s end-of-buffer sentinel [variant %s]' % (nm, st.line, which, v.name),
                         witness=witness(cfg, st, rt, avoid=[p[k]]), variant=v.describe())
    # yy_scan_bytes: the copy handed to yy_scan_buffer
    fn = sc.fn('SCANBYTES')
    if fn is None:
        c03.vac(rep, v, 'C04.R2: no yy_scan_bytes in this variant (%s)' % ('C++ back end' if v.backend == 'cxx' else 'noyy_scan_bytes'))
    else:
        a = sc.fa(fn); cfg = sc.prog.cfg(fn)
        calls = sc.calls(fn, 'SCANBUFFER')
        if not calls:
            rep.broken('%s: yy_scan_bytes does not call yy_scan_buffer' % v.name)
        call = calls[0]
        d = fn.def_of(flow.strip_casts(fn, call.ops[0]))
        argl = a.loc(d.ops[0]) if d is not None and d.op == 'load' else None
        pairs = [p for p in sentinel_pairs(sc, fn) if p[2] == argl]
        for k, which in ((0, 'first'), (1, 'second')):
            n += 1
            key = 'C04.R2:%s:yy_scan_bytes:%s-sentinel' % (skel(v), which)
            ok = [p for p in pairs if cfg.ins_dominates(p[k], call)]
            if ok: rep.ok('C04.R2', '%s yy_scan_bytes: %s sentinel store@%s dominates yy_scan_buffer@%s' % (v.name, which, ok[0][k].line, call.line))
            else: rep.fail('C04.R2', key, where(call), 'yy_scan_bytes hands its copy to yy_scan_buffer without the %s end-of-buffer sentinel [variant %s]' % (which, v.name), variant=v.describe())
    # yyunput_r: the shift moves yy_n_chars + 2 bytes
    fn = sc.fn('UNPUT')
    if fn is None:
        c03.vac(rep, v, 'C04.R2: no yyunput in this variant (noyyunput)')
    else:
        a = sc.fa(fn)
        n += 1
        key = 'C04.R2:%s:yyunput:shift-includes-sentinels' % skel(v)
        moves = [x for x in a.move_events() if x not in a.realloc_stores()]
        found = None
        for mv in moves:
            ld = fn.def_of(mv.ops[0])           # the byte load of the copy
            # the source pointer: a local whose initial value is &yy_ch_buf[yy_n_chars + 2]
            src_locals = set()
            def collect(p, depth=0):
                dd = fn.def_of(p)
                if dd is None or depth > 6: return
                if dd.op == 'load':
                    l = a.loc(dd.ops[0])
                    if l[0] == 'local': src_locals.add(l[1])
                elif dd.op in ('getelementptr', 'bitcast'): collect(dd.ops[0], depth + 1)
            collect(ld.ops[0])
            for L in src_locals:
                for st in a.local_stores(L):
                    g = gep_parts(sc, fn, st.ops[0])
                    if g and g[1] == 'CHBUF' and g[2] is not None and isinstance(g[2], tuple) and cell_role(_thaw(g[2])) == 'NCHARS' and g[3] == 2:
                        found = (mv, st)
        if not moves:
            rep.fail('C04.R2', key, fwhere(fn), 'no block move in yyunput [variant %s]' % v.name, variant=v.describe())
        elif found:
            rep.ok('C04.R2', '%s %s: the shift@%s starts at &yy_ch_buf[yy_n_chars + 2] (@%s)' % (v.name, fn.name, found[0].line, found[1].line))
        else:
            rep.fail('C04.R2', key, where(moves[0]), 'the shift in yyunput does not start at &yy_ch_buf[yy_n_chars + 2]: the two end-of-buffer sentinels are not moved with the text [variant %s]' % v.name, variant=v.describe())
    return n

def _thaw(t):
    """frozen location -> something cell_role understands"""
    return t

# ---------------------------------------------------------------- R3

def r3(ctx, sc):
    rep = ctx.rep; v = sc.v; n = 0
    for role in ('LEX', 'INPUT'):
        for fn in sc.fns(role):
            a = sc.fa(fn); cfg = sc.prog.cfg(fn)
            for call in sc.calls(fn, 'GNB'):
                n += 1
                key = 'C04.R3:%s:%s:NUL-vs-end-test' % (skel(v), norm(fn.name))
                found = None
                for b in fn.blocks:
                    br = b.ins[-1]
                    if br.op != 'br' or not br.ops or not cfg.dominates(b, call.blk) or b is call.blk: continue
                    d = fn.def_of(br.ops[0])
                    if d is None or d.op != 'icmp' or d.pred not in ('ule', 'ult', 'uge', 'ugt'): continue
                    x, y = d.ops
                    def is_scanptr(val):
                        dd = fn.def_of(val)
                        return dd is not None and dd.op == 'load' and cell_role(a.loc(dd.ops[0])) == 'CBUFP'
                    def is_end(val):
                        g = gep_parts(sc, fn, c03.through_temp(fn, val))
                        return bool(g) and g[1] == 'CHBUF' and isinstance(g[2], tuple) and cell_role(g[2]) == 'NCHARS' and not saved_in_buffer(g[2]) and g[3] == 0
                    if not ((is_scanptr(x) and is_end(y)) or (is_scanptr(y) and is_end(x))): continue
                    sides = [t for t in cfg.succ[b] if cfg.dominates(t, call.blk)]
                    if len(sides) == 1: found = (br, d)
                if found:
                    rep.ok('C04.R3', '%s %s: yy_get_next_buffer@%s is on one side of the test yy_c_buf_p %s &yy_ch_buf[yy_n_chars]@%s' % (v.name, fn.name, call.line, found[1].pred, found[0].line))
                else:
                    rep.fail('C04.R3', key, where(call), 'the call of yy_get_next_buffer is not guarded by a comparison of yy_c_buf_p with &yy_ch_buf[yy_n_chars] formed from the count register of the scanner (a NUL in the text would be taken for the end of the buffer) [variant %s]' % v.name, variant=v.describe())
    return n

# ---------------------------------------------------------------- R6

BACKUP_CELLS = ('CPOS', 'LASTSTATE')

def r6(ctx, sc, lex):
    """sibling agreement of the three places that make DFA transitions: the match loop of yylex, the re-scan in
    yy_get_previous_state and the single step in yy_try_NUL_trans record the same backing-up information
    (yy_last_accepting_state / yy_last_accepting_cpos).  If the NUL step does not, an accepting state entered on a NUL
    is forgotten and a later back-up returns a shorter (or wrong) match."""
    rep = ctx.rep; v = sc.v
    fns = [(lex, 'yylex'), (sc.fn('GPS'), 'yy_get_previous_state'), (sc.fn('NUL'), 'yy_try_NUL_trans')]
    if any(f is None for f, _ in fns):
        rep.broken('%s: yy_get_previous_state / yy_try_NUL_trans not found' % v.name)
    kept = {nm: frozenset(r for r in BACKUP_CELLS if sc.fa(f).cell_stores(r)) for f, nm in fns}
    ref = frozenset().union(*kept.values())
    if not ref:
        c03.vac(rep, v, 'C04.R6: no backing-up cells are written anywhere (REJECT scanners keep a state stack; or the DFA never backs up)')
        return 0
    n = 0
    for f, nm in fns:
        n += 1
        key = 'C04.R6:%s:%s:backing-up-info:%s' % (skel(v), nm, mode_label(v))
        if kept[nm] != ref:
            miss = sorted(ref - kept[nm])
            who = [x for x in kept if kept[x] == ref]
            rep.fail('C04.R6', key, fwhere(f), '%s does not record %s although %s does: an accepting state entered there is lost for backing up [variant %s; options %s]' % (
                nm, ' / '.join({'CPOS': 'yy_last_accepting_cpos', 'LASTSTATE': 'yy_last_accepting_state'}[m] for m in miss), ', '.join(who), v.name, ' '.join(v.options)),
                variant=v.describe(), replay_input='-CF (or -Cf) scanner whose DFA backs up, e.g. rules "ab\\0cd" and "a"; an input in which the longer rule fails after the NUL')
        else:
            st = sc.fa(f).cell_stores('CPOS')
            rep.ok('C04.R6', '%s %s records %s (@%s)' % (v.name, nm, '+'.join(sorted(ref)), ','.join(str(x.line) for x in st[:3])))
    return n

# ---------------------------------------------------------------- R7

def saved_in_buffer(loc):
    """the location is a member of the buffer object (struct yy_buffer_state), i.e. the saved copy, not the scanner register"""
    return isinstance(loc, tuple) and loc and loc[0] == 'field' and 'buffer_state' in loc[1]

def r7(ctx, sc):
    """the scanner works on registers (yy_n_chars, yy_c_buf_p) that yy_load_buffer_state loads from the buffer object and
    that are written back only when buffers are switched; in between the saved copies are stale.  So every load of a
    saved copy (yy_buffer_state.yy_n_chars / .yy_buf_pos) may only be stored into the corresponding register."""
    rep = ctx.rep; v = sc.v; n = 0
    want = {'NCHARS': ('NCHARS',), 'BUFPOS': ('CBUFP', 'TEXT')}
    for f in sc.mod.functions.values():
        a = None
        for x in f.ins:
            if x.op != 'load': continue
            if a is None: a = sc.fa(f)
            l = a.loc(x.ops[0])
            r = cell_role(l)
            if r not in want or not saved_in_buffer(l): continue
            n += 1
            bad = None
            work = [x.res]; seen = set()
            while work and bad is None:
                rr = work.pop()
                if rr in seen: continue
                seen.add(rr)
                for u in f.uses().get(rr, []):
                    if u.op in ('sext', 'zext', 'trunc', 'bitcast'): work.append(u.res)
                    elif u.op == 'store' and u.ops[0] == ('reg', rr):
                        tl = a.loc(u.ops[1])
                        if cell_role(tl) in want[r] and not saved_in_buffer(tl): continue
                        if tl[0] == 'local':
                            # through a temporary: follow its loads
                            for y in a.local_loads(tl[1]): work.append(y.res)
                            continue
                        bad = u
                    else: bad = u
            nm = {'NCHARS': 'yy_n_chars', 'BUFPOS': 'yy_buf_pos'}[r]
            key = 'C04.R7:%s:%s:saved-%s-used-directly' % (skel(v), norm(f.name), nm)
            if bad is not None:
                rep.fail('C04.R7', key, where(bad), '%s uses the copy of %s saved in the buffer object (loaded at line %s) instead of the scanner register; the saved copy is stale between yy_load_buffer_state and the next buffer switch (e.g. after a refill) [variant %s]' % (
                    norm(f.name), nm, x.line, v.name), variant=v.describe())
            else:
                rep.ok('C04.R7', '%s %s: saved %s loaded@%s only to reload the register' % (v.name, norm(f.name), nm, x.line))
    return n

# ---------------------------------------------------------------- R9

GETC = ('getc', '_IO_getc', 'fgetc', 'getc_unlocked', 'getchar')

def r9(ctx, sc):
    """8-bit clean input: getc()/fgetc() returns an int so that EOF (-1) differs from every byte value.  The value that
    is compared with EOF must therefore be the call result at its full width: on the data flow from the call to a
    comparison with -1 there is no truncation to 8 bits (a char-typed temporary re-extends 0xFF to -1, which then ends
    the input or drops the byte).  The copy that is stored into the buffer may be truncated, the tested value may not."""
    rep = ctx.rep; v = sc.v; n = 0
    for fn in sc.mod.functions.values():
        gs = [c for c in fn.ins if c.op in ('call', 'invoke') and c.callee in GETC]
        if not gs: continue
        a = sc.fa(fn)
        def origin(val, narrowed, seen, depth=0):
            """yield (call, narrowed) for every getc call the value can come from"""
            if depth > 30 or not isinstance(val, tuple) or val[0] != 'reg' or (val[1], narrowed) in seen: return
            seen.add((val[1], narrowed))
            d = fn.def_of(val)
            if d is None: return
            if d in gs: yield (d, narrowed); return
            if d.op in ('sext', 'zext', 'trunc'):
                small = (d.ty is not None and d.ty.k == 'int' and d.ty.a < 32) or (d.srcty is not None and d.srcty.k == 'int' and d.srcty.a < 32)
                yield from origin(d.ops[0], narrowed or small, seen, depth + 1); return
            if d.op in ('phi', 'select'):
                for o in (d.ops if d.op == 'phi' else d.ops[1:]): yield from origin(o, narrowed, seen, depth + 1)
                return
            if d.op == 'load':
                l = a.loc(d.ops[0])
                if l[0] == 'local':
                    small = d.ty is not None and d.ty.k == 'int' and d.ty.a < 32
                    for st in a.local_stores(l[1]): yield from origin(st.ops[0], narrowed or small, seen, depth + 1)
        tested = set()
        for x in fn.ins:
            if x.op != 'icmp' or ('int', -1) not in x.ops: continue
            val = x.ops[0] if x.ops[1] == ('int', -1) else x.ops[1]
            for g, narrowed in origin(val, False, set()):
                n += 1
                tested.add(g)
                key = 'C04.R9:%s:%s:EOF-compared-at-int-width' % (skel(v), norm(fn.name))
                if narrowed:
                    rep.fail('C04.R9', key, where(x), 'in %s the result of %s() (line %s) is narrowed to 8 bits before it is compared with EOF (line %s): the byte 0xFF is taken for end of input [variant %s]' % (
                        norm(fn.name), g.callee, g.line, x.line, v.name), variant=v.describe(), replay_input='interactive scanner (%option interactive, stdin a terminal or always-interactive), input containing the byte \\xff')
                else:
                    rep.ok('C04.R9', '%s %s: %s@%s compared with EOF@%s at full int width' % (v.name, norm(fn.name), g.callee, g.line, x.line))
        for g in gs:
            if g not in tested:
                n += 1
                rep.fail('C04.R9', 'C04.R9:%s:%s:EOF-not-tested' % (skel(v), norm(fn.name)), where(g), 'the result of %s() in %s is never compared with EOF [variant %s]' % (g.callee, norm(fn.name), v.name), variant=v.describe())
    if n == 0:
        c03.vac(rep, v, 'C04.R9: no getc()/fgetc() in this variant (%s)' % ('C++ reads through std::istream' if v.backend == 'cxx' else 'the scanner uses read(2) / fread, or has no yyread'))
    return n

# ---------------------------------------------------------------- R4 (flex itself)

def r4(ctx):
    rep = ctx.rep
    P = ctx.flex
    n = 0
    cc = P.fn('check_char'); mk = P.fn('mkstate'); ca = P.fn('ccladd')
    if cc is None or mk is None or ca is None:
        rep.broken('check_char / mkstate / ccladd not found in flex')
    # (i) ccladd: check_char(ch) dominates the store of ch into ccltbl
    res = ir.Resolver(ca); cfg = P.cfg(ca)
    calls = [c for c in ca.ins if c.op == 'call' and c.callee == 'check_char']
    chp = ca.params[1][1] + '.addr' if len(ca.params) > 1 else None
    stores = []
    for x in ca.ins:
        if x.op != 'store': continue
        l = res.loc(x.ops[1])
        if ir.loc_class(l) == ('deref', ('global', 'ccltbl')) or (l[0] == 'elem' and l[1] == ('deref', ('global', 'ccltbl'))):
            stores.append(x)
    n += 1
    key = 'C04.R4:ccl.c:ccladd:check_char-dominates-store'
    if not stores:
        rep.broken('ccladd: no store into ccltbl found')
    def arg_is_param(c, fn, pl):
        d = fn.def_of(c.ops[0]) if c.ops else None
        return d is not None and d.op == 'load' and d.ops[0] == ('reg', pl)
    good = [c for c in calls if arg_is_param(c, ca, chp)]
    if good and all(any(cfg.ins_dominates(c, s_) for c in good) for s_ in stores):
        rep.ok('C04.R4', 'ccladd: check_char(ch)@%s dominates the %d store(s) into ccltbl' % (good[0].line, len(stores)))
    else:
        rep.fail('C04.R4', key, where(stores[0]), 'ccladd stores a character into ccltbl that has not been through check_char(): a byte >= 128 would enter a 7-bit scanner')
    # (ii) mkstate: every path to the return avoids check_char only on the class / epsilon edges
    res = ir.Resolver(mk); cfg = P.cfg(mk)
    sp = mk.params[0][1] + '.addr'
    calls = [c for c in mk.ins if c.op == 'call' and c.callee == 'check_char' and arg_is_param(c, mk, sp)]
    allowed = set()       # (block, successor) edges that may bypass the check
    for b in mk.blocks:
        br = b.ins[-1]
        if br.op != 'br' or not br.ops: continue
        d = mk.def_of(br.ops[0])
        if d is None or d.op != 'icmp': continue
        x, y = d.ops
        dx = mk.def_of(x)
        if dx is None or dx.op != 'load' or dx.ops[0] != ('reg', sp) or y[0] != 'int': continue
        if d.pred == 'slt' and y[1] == 0: allowed.add((b, mk.bmap[br.targets[0]]))
        elif d.pred == 'sge' and y[1] == 0: allowed.add((b, mk.bmap[br.targets[1]]))
        elif d.pred == 'eq' and y[1] > 255: allowed.add((b, mk.bmap[br.targets[0]]))
        elif d.pred == 'ne' and y[1] > 255: allowed.add((b, mk.bmap[br.targets[1]]))
    tstores = [x for x in mk.ins if x.op == 'store' and ir.loc_class(res.loc(x.ops[1])) == ('deref', ('global', 'transchar'))]
    n += 1
    key = 'C04.R4:nfa.c:mkstate:check_char-on-character-symbols'
    if not tstores:
        rep.broken('mkstate: no store into transchar found')
    r = cfg.reach(first_ins(mk.entry), avoid=calls, include_start=True, edge_filter=lambda b, t: (b, t) not in allowed)
    rets = [x for x in r if x.op == 'ret']
    if not calls or rets:
        rep.fail('C04.R4', key, where(tstores[0]), 'mkstate can return for a character symbol (sym >= 0, sym != SYM_EPSILON) without check_char(sym): a byte >= 128 would enter a 7-bit scanner',
                 witness=witness(cfg, first_ins(mk.entry), rets[0], avoid=calls, include_start=True) if rets else None)
    elif len(allowed) < 2:
        rep.broken('mkstate: the class (sym < 0) / epsilon tests were not both found (%d)' % len(allowed))
    else:
        rep.ok('C04.R4', 'mkstate: every return passes check_char(sym)@%s except on the sym<0 / sym==SYM_EPSILON edges (%d)' % (calls[0].line, len(allowed)))
    # (iii) check_char refuses c >= ctrl.csize
    res = ir.Resolver(cc); cfg = P.cfg(cc)
    n += 1
    key = 'C04.R4:misc.c:check_char:csize-refusal'
    ok = None
    for b in cc.blocks:
        br = b.ins[-1]
        if br.op != 'br' or not br.ops: continue
        d = cc.def_of(br.ops[0])
        if d is None or d.op != 'icmp' or d.pred not in ('sge', 'sgt', 'slt', 'sle'): continue
        ls = [ir.loc_class(l) for dd, l in flow.cond_loads(cc, br, res)]
        if not any(c[0] == 'field' and c[2] == 'csize' for c in ls): continue
        if ('local', cc.params[0][1] + '.addr') not in ls: continue
        tgt = br.targets[0] if d.pred in ('sge', 'sgt') else br.targets[1]
        rr = cfg.reach_from_block(cc.bmap[tgt])
        if not any(x.op == 'ret' for x in rr): ok = br
    if ok is not None: rep.ok('C04.R4', 'check_char: c >= ctrl.csize@%s cannot return (lerr)' % ok.line)
    else: rep.fail('C04.R4', key, fwhere(cc), 'check_char does not refuse a character >= ctrl.csize (the `scanner requires -8 flag` error)')
    return n

# ---------------------------------------------------------------- R5

def byte_extensions(sc, fn, v, seen=None, depth=0, cur=None):
    """walk the data flow that computes integer v backwards (casts, arithmetic, phi/select, locals through all their
    stores); yield (ext instruction or None, byte load) for every byte loaded through a pointer into the buffer that
    is reached; ext is the extension from 8 bits nearest to the use (a byte may sit in a char-typed local first, as
    in the -CF match loop, then the extension is applied to the load of that local).  Loads from other memory
    (tables) are leaves."""
    a = sc.fa(fn)
    if seen is None: seen = set()
    if depth > 40 or not isinstance(v, tuple) or v[0] != 'reg' or (v[1], cur.res if cur is not None else None) in seen: return
    seen.add((v[1], cur.res if cur is not None else None))
    d = fn.def_of(v)
    if d is None: return
    if d.op in ('sext', 'zext'):
        if cur is None and a.is_byte(d.srcty): cur = d
        yield from byte_extensions(sc, fn, d.ops[0], seen, depth + 1, cur); return
    if d.op in ('trunc', 'add', 'sub', 'mul', 'and', 'or', 'xor', 'shl', 'lshr', 'ashr', 'phi', 'select', 'sdiv', 'udiv', 'srem', 'urem'):
        for o in d.ops: yield from byte_extensions(sc, fn, o, seen, depth + 1, cur)
        return
    if d.op == 'load':
        l = a.loc(d.ops[0])
        if l[0] == 'local':
            for st in a.local_stores(l[1]): yield from byte_extensions(sc, fn, st.ops[0], seen, depth + 1, cur)
        elif a.is_byte(d.ty) and a.is_buf_ptr(d.ops[0]):
            yield (cur, d)
        return

def r5(ctx, sc, control=False):
    rep = ctx.rep; v = sc.v; n = 0; bad = 0
    for role in ('LEX', 'GPS', 'NUL'):
        for fn in sc.fns(role):
            a = sc.fa(fn); a.table_locals()
            seen_pairs = set()
            for g in fn.ins:
                if g.op != 'getelementptr' or not a.is_table_ptr(g.ops[0]): continue
                for idx in g.ops[1:]:
                    for ext, ld in byte_extensions(sc, fn, idx):
                        if (ld.res, g.res) in seen_pairs: continue
                        seen_pairs.add((ld.res, g.res))
                        n += 1
                        good = ext is not None and ext.op == 'zext'
                        if control:
                            if not good: bad += 1
                            continue
                        key = 'C04.R5:%s:%s:signed-byte-index' % (skel(v), norm(fn.name))
                        if good:
                            rep.ok('C04.R5', '%s %s: byte loaded@%s is zero-extended@%s before it indexes a table@%s' % (v.name, fn.name, ld.line, ext.line, g.line))
                        else:
                            rep.fail('C04.R5', key, where(ext if ext is not None else ld), 'a byte loaded through a buffer pointer (line %s) is %s and flows into the index of a scanner table (line %s): bytes >= 0x80 give negative indices [variant %s]' % (
                                     ld.line, 'sign-extended' if ext is not None else 'used unextended', g.line, v.name), variant=v.describe())
    return (n, bad) if control else n

def is_ec_table(sc, fn, base):
    """the pointer is the equivalence-class table yy_ec (the global itself, or the pointer loaded from it with %option tables-file)"""
    a = sc.fa(fn)
    v = base; depth = 0
    while depth < 10:
        depth += 1
        if not isinstance(v, tuple): return False
        if v[0] == 'glob': return canon(v[1]) == 'yyec'
        if v[0] in ('cgep', 'ccast'): v = v[2]; continue
        if v[0] != 'reg': return False
        d = fn.def_of(v)
        if d is None: return False
        if d.op in ('getelementptr', 'bitcast'): v = d.ops[0]; continue
        if d.op == 'load':
            l = a.loc(d.ops[0])
            return (l[0] == 'global' and canon(l[1]) == 'yyec') or (l[0] == 'field' and canon(l[2]) == 'yyec')
        return False
    return False

def index_leaves(sc, fn, v, seen=None, depth=0):
    """kinds of values an integer can come from: 'byte' (loaded through a pointer into the buffer), 'const',
    'table' (loaded from a scanner table), 'other'; through casts, phi/select and locals (all their stores)"""
    a = sc.fa(fn)
    if seen is None: seen = set()
    if not isinstance(v, tuple) or depth > 40: return {('other', None)}
    if v[0] == 'int': return {('const', v[1])}
    if v[0] != 'reg' or v[1] in seen: return set()
    seen.add(v[1])
    d = fn.def_of(v)
    if d is None: return {('other', None)}
    if d.op in ('sext', 'zext', 'trunc'): return index_leaves(sc, fn, d.ops[0], seen, depth + 1)
    if d.op in ('phi', 'select'):
        out = set()
        for o in (d.ops if d.op == 'phi' else d.ops[1:]): out |= index_leaves(sc, fn, o, seen, depth + 1)
        return out
    if d.op == 'load':
        l = a.loc(d.ops[0])
        if l[0] == 'local':
            out = set()
            for st in a.local_stores(l[1]): out |= index_leaves(sc, fn, st.ops[0], seen, depth + 1)
            return out
        if a.is_byte(d.ty) and a.is_buf_ptr(d.ops[0]): return {('byte', d.line)}
        a.table_locals()
        if a.is_table_ptr(d.ops[0]): return {('table', d.line)}
    return {('other', None)}

def r5b(ctx, sc):
    """yy_ec maps input bytes to equivalence classes, nothing else: every index of a load from yy_ec is a byte loaded through
    a pointer into the buffer on every incoming path.  A constant arm (the class YY_NUL_EC used as a character code) or a
    value that already went through yy_ec / yy_meta would be mapped a second time."""
    rep = ctx.rep; v = sc.v; n = 0
    for role in ('LEX', 'GPS', 'NUL'):
        for fn in sc.fns(role):
            for x in fn.ins:
                if x.op != 'load': continue
                g = fn.def_of(x.ops[0])
                if g is None or g.op != 'getelementptr' or not is_ec_table(sc, fn, g.ops[0]): continue
                idx = g.ops[-1]
                if idx == ('int', 0) and len(g.ops) > 2: continue
                leaves = index_leaves(sc, fn, idx)
                n += 1
                bad = sorted(k for k, _ in leaves if k != 'byte')
                key = 'C04.R5:%s:%s:yy_ec-index-not-a-byte' % (skel(v), norm(fn.name))
                if bad or not leaves:
                    what = {'const': 'a constant (a class number such as YY_NUL_EC used as a character code)', 'table': 'a value loaded from a scanner table (mapped twice)', 'other': 'something that is not an input byte'}
                    rep.fail('C04.R5', key, where(x), '%s indexes yy_ec (line %s) with %s on some path: yy_ec maps input bytes to equivalence classes, the result is the class of the wrong character [variant %s]' % (
                        norm(fn.name), x.line, ' / '.join(what[b] for b in bad) or 'nothing traceable', v.name), variant=v.describe())
                else:
                    rep.ok('C04.R5', '%s %s: yy_ec@%s is indexed by a buffer byte on every path' % (v.name, norm(fn.name), x.line))
    return n

class _ControlVariant:
    name = 'selftest'; backend = 'nr'; feats = frozenset(); options = []
    def describe(s): return 'selftest/C04_R5_control.ll'

def positive_control(ctx):
    """the detector must fire on a snippet that indexes yy_ec with a plain char"""
    p = os.path.join(VERIF, 'selftest', 'C04_R5_control.ll')
    if not os.path.exists(p): ctx.rep.broken('positive control %s is missing' % p)
    sc = Scanner(_ControlVariant(), mod=ir.Module(p))
    n, bad = r5(ctx, sc, control=True)
    if bad < 1 or n - bad < 1:
        ctx.rep.broken('C04.R5 positive control: expected one signed and one unsigned byte index in %s, found %d/%d' % (p, bad, n - bad))
    ctx.rep.note('C04.R5 positive control: %d signed, %d unsigned byte index flows recognised in selftest/C04_R5_control.ll' % (bad, n - bad))

# ---------------------------------------------------------------- R8

CHARSPACE_MAX = (255, 256, 257)        # CSIZE and its neighbours

def charspace_loops(prog_or_fns):
    """[(function, branch, constant)] for every loop whose counter (a local incremented by one inside the loop) is compared
    with the compile-time size of the character space instead of the run-time one"""
    out = []
    for f in prog_or_fns:
        if not f.blocks: continue
        res = ir.Resolver(f)
        incs = {}
        for x in f.ins:
            if x.op != 'store': continue
            l = res.loc(x.ops[1])
            d = f.def_of(x.ops[0])
            if l[0] == 'local' and d is not None and d.op == 'add' and ('int', 1) in d.ops:
                o = d.ops[0] if d.ops[1] == ('int', 1) else d.ops[1]
                dd = f.def_of(o)
                if dd is not None and dd.op == 'load' and res.loc(dd.ops[0]) == l: incs.setdefault(l, []).append(x)
        if not incs: continue
        for b in f.blocks:
            br = b.ins[-1]
            if br.op != 'br' or not br.ops: continue
            d = f.def_of(br.ops[0])
            if d is None or d.op != 'icmp': continue
            for k in (0, 1):
                c = d.ops[k]; o = d.ops[1 - k]
                if c[0] == 'int' and c[1] in CHARSPACE_MAX:
                    dd = f.def_of(flow.strip_casts(f, o)) if o[0] == 'reg' else None
                    if dd is not None and dd.op == 'load' and res.loc(dd.ops[0]) in incs:
                        out.append((f, br, c[1]))
    return out

def r8(ctx):
    """R8 (generator): loops over the character space are bounded by the run-time size of the character set
    (ctrl.csize, numecs, a class length), never by the compile-time maximum CSIZE = 256: in a 7-bit scanner codes
    128..255 do not exist, and a class operation that visits them makes flex demand -8 for a 7-bit-clean rule set or
    emits transitions on characters the tables have no column for."""
    rep = ctx.rep; P = ctx.flex
    # positive control
    pc = os.path.join(VERIF, 'selftest', 'C04_R8_control.ll')
    if not os.path.exists(pc): rep.broken('positive control %s is missing' % pc)
    hits = charspace_loops(ir.Module(pc).functions.values())
    if [h[0].name for h in hits] != ['bad_loop']: rep.broken('C04.R8 positive control: expected exactly bad_loop, found %s' % [h[0].name for h in hits])
    fns = [f for f in set(P.functions.values()) if f.blocks and f.file and not f.file.endswith(('scan.c', 'parse.c')) and 'stage' not in f.file and f.name != 'flexscan']
    loops = 0
    for f in fns:
        cfg = P.cfg(f, cut=False)
        loops += sum(1 for b in f.blocks if b.ins[-1].op == 'br' and b.ins[-1].ops and any(y.blk is b for y in cfg.reach(b.ins[-1])))
    bad = charspace_loops(fns)
    for f, br, c in bad:
        rep.fail('C04.R8', 'C04.R8:%s:%s:loop-bounded-by-CSIZE' % (f.file, f.name), where(br),
                 '%s() runs a counter up to the constant %d (the compile-time size of the character space) instead of ctrl.csize: in a 7-bit scanner it visits '
                 'characters 128..255, which do not exist there' % (f.name, c), replay_input='%option 7bit\n%%\n[^"]{-}[\\\\\\n]  ;\n%%   (flex: scanner requires -8 flag)')
    if not bad: rep.ok('C04.R8', 'census: none of the %d loop tests in %d generator functions compares its counter with CSIZE (positive control fired)' % (loops, len(fns)))
    if loops < 150: rep.broken('C04.R8: only %d loop tests found in flex' % loops)
    return 1

# ---------------------------------------------------------------- driver

def run(ctx):
    rep = ctx.rep
    vs = [v for v in ctx.variants() if c03.usable(v)]
    rep.require(len(vs) >= 60, 'only %d scanner variants compiled to IR' % len(vs))
    # full tables with equivalence classes keep the NUL transitions inside yy_nxt (mode M4_MODE_NULTRANS_FULLTBL); no core
    # variant has that mode, so this check instantiates its own probes (same mechanism, set name 'c04')
    extra = [variants.Variant('%s_Cfe_B' % b, b, variants.PLAIN, ['full', 'ecs', 'batch']) for b in ('nr', 'r', 'cxx', 'c99', 'go')]
    variants.instantiate(ctx.art, extra, 'c04')
    have = {v.name for v in vs}
    extra = [v for v in extra if v.ll is not None and v.name not in have]
    rep.require(len(extra) + len([v for v in vs if v.name.endswith('_Cfe_B')]) >= 5, 'the -Cfe probe variants did not compile: %s' % [getattr(v, 'll_err', '')[:80] for v in extra])
    rep.require(all('M4_MODE_NULTRANS_FULLTBL' in variants.mode_symbols(v) for v in extra), 'the -Cfe probes are not in mode M4_MODE_NULTRANS_FULLTBL')
    vs = vs + extra
    positive_control(ctx)
    tot = {'R1': 0, 'R2': 0, 'R3': 0, 'R5': 0, 'R6': 0, 'R7': 0, 'R9': 0, 'R1jam': 0, 'R5b': 0, 'ecs': 0}
    backends = set()
    for v in vs:
        sc = Scanner(v)
        lex = sc.fn('LEX', having_call='GNB')
        if lex is None: rep.broken('%s: yylex not found' % v.name)
        backends.add(v.backend)
        tot['R1'] += r1(ctx, sc, lex)
        tot['R1jam'] += r1_jam(ctx, sc, lex)
        tot['R2'] += r2(ctx, sc)
        tot['R3'] += r3(ctx, sc)
        tot['R5'] += r5(ctx, sc)
        tot['R5b'] += r5b(ctx, sc)
        if 'M4_MODE_USEECS' in variants.mode_symbols(v): tot['ecs'] += 1
        tot['R6'] += r6(ctx, sc, lex)
        tot['R7'] += r7(ctx, sc)
        tot['R9'] += r9(ctx, sc)
    n4 = r4(ctx)
    r8(ctx)
    rep.require(backends == {'nr', 'r', 'cxx', 'c99', 'go'}, 'back ends analysed: %s' % sorted(backends))
    rep.setcount('variants_analysed', len(vs))
    for k, n in tot.items(): rep.setcount('instances_' + k, n)
    rep.setcount('instances_R4', n4)
    c03.count_guard(rep, tot['R1'] >= 2 * len(vs), 'C04.R1 matched %d instances, 2 per variant expected' % tot['R1'])
    c03.count_guard(rep, tot['R2'] >= 5 * len(vs), 'C04.R2 matched %d instances, 4..7 per variant expected' % tot['R2'])
    c03.count_guard(rep, tot['R3'] >= 2 * len(vs) - 8, 'C04.R3 matched %d instances, 2 per variant (yylex, yyinput) expected' % tot['R3'])
    c03.count_guard(rep, tot['R5'] >= 2 * len(vs), 'C04.R5 matched %d byte-to-table-index flows, at least 2 per variant (match loop of yylex, yy_get_previous_state) expected' % tot['R5'])
    c03.count_guard(rep, tot['R6'] >= 3 * (len(vs) // 2), 'C04.R6 matched %d instances, 3 per non-REJECT variant expected' % tot['R6'])
    c03.count_guard(rep, tot['R7'] >= 3 * len(vs), 'C04.R7 matched %d loads of saved buffer state, 3 per variant expected (2 in yy_load_buffer_state, 1 in yylex)' % tot['R7'])
    for r in ('C04.R1', 'C04.R2', 'C04.R3', 'C04.R5', 'C04.R6', 'C04.R7'): rep.floor(r, 1, 'see instances_* counters')
    rep.floor('C04.R4', 3, 'ccladd, mkstate, check_char')
    c03.count_guard(rep, tot['R1jam'] >= 20, 'C04.R1 jam test matched %d instances (full-table and compressed batch variants, and the five -Cfe probes, expected)' % tot['R1jam'])
    c03.count_guard(rep, tot['R5b'] >= 2 * tot['ecs'], 'C04.R5 matched %d loads from yy_ec, 2 per variant with equivalence classes (%d) expected (match loop, yy_get_previous_state)' % (tot['R5b'], tot['ecs']))
    c03.count_guard(rep, tot['R9'] >= 120, 'C04.R9 matched %d EOF comparisons of getc results, 2 per C variant with stdio input expected' % tot['R9'])
    rep.floor('C04.R9', 1, 'EOF comparisons in yyread')
    rep.floor('C04.R8', 1, 'census of generator loops')
    rep.undecided += ['behaviour of NUL relative to refills, back-ups and push-back for all inputs',
                      'the comparison operator of the NUL-versus-end test (<= in yylex, < in yyinput) - a value question',
                      'that the tables themselves have 256 columns in 8-bit mode (C01/C15)']
    rep.assumptions += ['clang -O0 IR of the instantiated skeleton is a faithful rendering of the generated C/C++ source',
                        'YY_SC_TO_UI is the only conversion applied to input bytes before table lookups (found by data flow, not by name)']
    c03.flush_vac(rep)
    return rep.finish('other',
        'Path and data-flow rules on LLVM IR of %d instantiated scanner variants (nr, r, C++, c99, go; every table mode x interactive/batch x '
        'REJECT): assignment of the scan-position local on the jam-on-NUL edge, sentinel stores post-dominating every store of yy_n_chars, '
        'NUL-versus-end comparison dominating each refill, zero-extension of every buffer byte that reaches a table index; plus check_char '
        'dominance in flex\'s own mkstate/ccladd.' % len(vs))
