"""C03 - tokens do not depend on how the input is delivered (the refill mechanism).

R1  recompute after refill: in yylex every path from a non-end-of-file arm of the switch on the result of
    yy_get_next_buffer() to a load of the DFA state / a scanner table passes a call to yy_get_previous_state().
R2  no stale buffer pointers: yy_get_next_buffer() and yyunput_r() move (or reallocate) the text.
    (a) yy_get_next_buffer re-derives yytext_ptr after its last move on every returning path;
    (b) inside yy_get_next_buffer, after its own yyrealloc of yy_ch_buf, no pointer into the old block (local or
        yy_c_buf_p / yytext_ptr) is loaded before it has been re-assigned;
    (c) in the callers (yylex, yyinput), on the arms that go on scanning, yy_c_buf_p is re-assigned before it is
        loaded or before yy_get_previous_state/yy_try_NUL_trans/yy_get_next_buffer run, and every local that holds
        a pointer into the buffer is re-assigned before it is loaded;
    (d) in yylex, after a call (in an action) to any function that moves the text, every such local is re-assigned
        before it is loaded.
R3  growth is reachable exactly when allowed: the yyrealloc of yy_ch_buf in yy_get_next_buffer is control dependent
    on yy_is_our_buffer, the other edge stores null, and the null test that follows is fatal.
R4  interactive reads stop at a newline: the getc loop of yyread (control dependent on yy_is_interactive) has exit
    edges on '\\n', on EOF and on max_size.

R5  yyinput / yy_get_next_buffer contract: the offset saved before the refill is yy_c_buf_p - yytext_ptr - 1 at the call.
    R4 also requires that getc is control dependent on the room test (no byte is taken from the stream without room).

R6  yy_init_buffer stores yy_input_file, yy_fill_buffer and yy_is_interactive on every path (yyrestart on the current buffer).
R8  the growth decision of yy_get_next_buffer is tight: the input call is reached only with a count > 0 (concrete evaluation).
R7  the refill decision in yylex / yyinput reads the count register, not the copy saved in the buffer object.

This module also holds the back-end identifier map and the buffer-pointer taint shared by c04.py and c08.py.
"""
import re
import ir, flow, variants
from common import where, fwhere

# ---------------------------------------------------------------- identifiers (back-end map)

def skel(v):
    return {'nr': 'cpp-flex.skl', 'r': 'cpp-flex.skl', 'cxx': 'cpp-flex.skl', 'c99': 'c99-flex.skl', 'go': 'go-flex.skl'}[v.backend]

_dm_cache = {}
def demangle(n):
    """last component of an Itanium-mangled name (enough for the generated C++ scanner), else n"""
    if n in _dm_cache: return _dm_cache[n]
    out = n
    m = re.match(r'_Z(N?)(K?)(L?)', n) if n.startswith('_Z') else None
    if m:
        i = m.end(); comps = []
        while i < len(n) and n[i].isdigit():
            j = i
            while j < len(n) and n[j].isdigit(): j += 1
            k = int(n[i:j]); comps.append(n[j:j + k]); i = j + k
        if comps:
            out = comps[-1]
            if m.group(1) and i < len(n) and n[i] in 'CD':      # constructor / destructor
                out = n
    _dm_cache[n] = out
    return out

def norm(n):
    """identifier with C++ mangling removed and the variant's prefix mapped back to yy"""
    n = demangle(n)
    return re.sub(r'^(foo|bar)(?=[A-Za-z_])', 'yy', n)

def canon(n):
    """back-end independent spelling: yy_c_buf_p, yyCBufP -> yycbufp"""
    return norm(n).replace('_', '').lower()

# cells of the scanner state, by canonical name
CELL_ROLE = {
    'yycbufp': 'CBUFP',
    'yytextptr': 'TEXT', 'yytext': 'TEXT', 'yytextr': 'TEXT',
    'yyholdchar': 'HOLD',
    'yychbuf': 'CHBUF',
    'yynchars': 'NCHARS',
    'yylastacceptingcpos': 'CPOS', 'yylastacceptingcharpos': 'CPOS',
    'yyfullmatch': 'FULLMATCH',
    'yybufpos': 'BUFPOS',
    'yybufsize': 'BUFSIZE', 'yyinputbufsize': 'BUFSIZE',
    'yyisourbuffer': 'OURBUF',
    'yyisinteractive': 'INTERACTIVE',
    'yystart': 'START',
    'yylastacceptingstate': 'LASTSTATE',
    'yymorelen': 'MORELEN',
    'yybufferstack': 'BUFSTACK',
    'yydidbufferswitchoneof': 'DIDSWITCH',
    'yyinputfile': 'INPUTFILE',
    'yystateptr': 'STATEPTR',
    'yystatebuf': 'STATEBUF',
    'yyfillbuffer': 'FILLBUF',
}
PTR_ROLES = ('CBUFP', 'TEXT', 'CHBUF', 'CPOS', 'FULLMATCH', 'BUFPOS')

FN_ROLE = {
    'yylex': 'LEX', 'yygetnextbuffer': 'GNB', 'yygetpreviousstate': 'GPS', 'yytrynultrans': 'NUL',
    'yyinput': 'INPUT', 'yyunputr': 'UNPUT', 'yyunput': 'UNPUT', 'yyloadbufferstate': 'LOADSTATE',
    'yydobeforeaction': 'DBA', 'yyrestart': 'RESTART', 'yyread': 'READ', 'yyrealloc': 'REALLOC', 'yyalloc': 'ALLOC',
    'yyflushbuffer': 'FLUSH', 'yyscanbytes': 'SCANBYTES', 'yyscanbuffer': 'SCANBUFFER',
    'yyswitchtobuffer': 'SWITCH', 'yypushbufferstate': 'PUSH', 'yypopbufferstate': 'POP', 'yyless': 'LESS',
    'yyinitbuffer': 'INITBUF', 'yycreatebuffer': 'CREATE', 'yydeletebuffer': 'DELETE', 'yywrap': 'WRAP',
    'yycurrentbuffer': 'CURBUF', 'yyflushcurrentbuffer': 'FLUSHCUR',
}
TABLES = {'yyec', 'yyaccept', 'yymeta', 'yybase', 'yydef', 'yynxt', 'yychk', 'yyacclist', 'yytransition',
          'yystartstatelist', 'yynultrans', 'yyrulecanmatcheol', 'yyrulelinenum'}

def fn_role(name):
    return FN_ROLE.get(canon(name)) if isinstance(name, str) else None

def cell_role(loc):
    """role of the exact location (a scalar cell of the scanner state); array elements have no role"""
    if loc[0] == 'global': return CELL_ROLE.get(canon(loc[1]))
    if loc[0] == 'field': return CELL_ROLE.get(canon(loc[2]))
    return None

def cell_str(loc):
    if loc[0] == 'global': return norm(loc[1])
    if loc[0] == 'field': return norm(loc[2])
    return ir.loc_str(loc)

class Scanner:
    """one instantiated variant: functions by role, per-function buffer-pointer taint (with parameter taint
    propagated through the call sites of the translation unit)."""
    def __init__(s, v, mod=None):
        s.v = v
        s.mod = mod if mod is not None else variants.module(v)
        s.prog = ir.Program([s.mod])
        s.by_role = {}
        for f in s.mod.functions.values():
            r = fn_role(f.name)
            if r: s.by_role.setdefault(r, []).append(f)
        s._fa = {}
        s._ptaint = None
        s._movers = None
        s._takelike = {}
        s._vcall = {}
        s._vtabs = {}

    def fns(s, role):
        return s.by_role.get(role, [])

    # ---- callee of a call instruction; C++ virtual calls are resolved through the vtable of the static class
    def callee(s, c):
        if isinstance(c.callee, str): return c.callee
        if c.callee is None: return None
        k = id(c)
        if k not in s._vcall: s._vcall[k] = s._resolve_vcall(c)
        return s._vcall[k]

    def _resolve_vcall(s, c):
        fn = c.fn
        d = fn.def_of(c.callee) if isinstance(c.callee, tuple) else None
        if d is None or d.op != 'load': return None
        g = fn.def_of(d.ops[0])
        if g is None or g.op != 'getelementptr' or len(g.ops) != 2 or g.ops[1][0] != 'int': return None
        vt = fn.def_of(g.ops[0])
        if vt is None or vt.op != 'load': return None
        bc = fn.def_of(vt.ops[0])
        if bc is None or bc.op != 'bitcast' or bc.srcty is None or bc.srcty.k != 'ptr' or bc.srcty.a.k != 'named': return None
        cls = re.sub(r'^(class|struct)\.', '', bc.srcty.a.a)
        tab = s._vtable(cls)
        slot = g.ops[1][1] + 2            # offset-to-top and RTTI come first
        return tab[slot] if tab and 0 <= slot < len(tab) else None

    def _vtable(s, cls):
        if cls not in s._vtabs:
            gv = s.mod.globals.get('_ZTV%d%s' % (len(cls), cls))
            ents = None
            if gv is not None:
                m = re.search(r'\[\d+ x i8\*\] \[(.*)\]', gv.text)
                if m:
                    ents = []; depth = 0; cur = ''
                    for ch in m.group(1):
                        if ch in '([{': depth += 1
                        elif ch in ')]}': depth -= 1
                        if ch == ',' and depth == 0: ents.append(cur); cur = ''
                        else: cur += ch
                    ents.append(cur)
                    out = []
                    for e in ents:
                        mm = re.search(r'@("[^"]*"|[-\w.$]+) to i8\*', e)
                        out.append(mm.group(1).strip('"') if mm else None)
                    ents = out
            s._vtabs[cls] = ents
        return s._vtabs[cls]

    def fn(s, role, having_call=None):
        """the function with that role (if several - C++ overloads, yyclass - the one that calls `having_call`)"""
        c = s.fns(role)
        if having_call:
            c2 = [f for f in c if any(fn_role(x.callee) == having_call for x in f.ins if x.op in ('call', 'invoke'))]
            if c2: c = c2
        return c[0] if c else None

    # ---- parameter taint (which parameters receive pointers into the buffer)
    def param_taint(s):
        if s._ptaint is None:
            pt = {}
            changed = True; rounds = 0
            while changed and rounds < 6:
                changed = False; rounds += 1
                s._fa = {}
                s._ptaint = pt
                for f in s.mod.functions.values():
                    fa = None
                    for c in f.ins:
                        if c.op not in ('call', 'invoke') or not isinstance(c.callee, str): continue
                        g = s.mod.functions.get(c.callee)
                        if g is None or not c.ops: continue
                        if not any(t is not None and t.k == 'ptr' and t.a.k == 'int' and t.a.a == 8 for t in (c.argtys or [])): continue
                        if fa is None: fa = s.fa(f)
                        for k, a in enumerate(c.ops):
                            if k < len(g.params) and g.params[k][1] and fa.is_buf_ptr(a):
                                key = (g.name, g.params[k][1])
                                if key not in pt: pt[key] = True; changed = True
            s._fa = {}
        return s._ptaint

    def fa(s, fn):
        a = s._fa.get(fn.name)
        if a is None:
            pt = s._ptaint if s._ptaint is not None else s.param_taint()
            a = s._fa[fn.name] = FnAnalysis(s, fn, {p for (f, p) in pt if f == fn.name})
        return a

    # ---- functions that move the text of the current buffer
    def movers(s):
        """names of the functions that contain a move event or (transitively) call one that does"""
        if s._movers is None:
            prim = set()
            for f in s.mod.functions.values():
                if fn_role(f.name) in ('REALLOC', 'ALLOC'): continue
                if s.fa(f).move_events(): prim.add(f.name)
            g = s.prog.callgraph()
            mv = set(prim); changed = True
            while changed:
                changed = False
                for n, cs in g.items():
                    if n not in mv and cs & mv: mv.add(n); changed = True
            s._movers = (prim, mv)
        return s._movers

    # ---- callees that take (set up the hold character) and never restore
    def take_like(s, fn, depth=0):
        """every path entry -> ret of fn passes a take (directly or through a take-like callee) and fn restores nothing"""
        if fn.name in s._takelike: return s._takelike[fn.name]
        s._takelike[fn.name] = False
        if depth > 3 or not fn.blocks: return False
        a = s.fa(fn)
        r = False
        if not s.restore_sites(fn):
            tk = list(a.takes())
            for c in fn.ins:
                if c.op in ('call', 'invoke'):
                    g = s.callee_fn(c, fn)
                    if g is not None and s.take_like(g, depth + 1): tk.append(c)
            if tk:
                cfg = s.prog.cfg(fn)
                rr = cfg.reach(fn.entry.ins[0], avoid=tk, include_start=True)
                r = not any(x.op == 'ret' for x in rr)
        s._takelike[fn.name] = r
        return r

    def take_sites(s, fn):
        """take instructions of fn: the store shape and calls to take-like callees"""
        a = s.fa(fn)
        out = list(a.takes())
        for c in fn.ins:
            if c.op in ('call', 'invoke'):
                g = s.callee_fn(c, fn)
                if g is not None and s.take_like(g): out.append(c)
        return out

    def restore_like(s, fn, depth=0):
        """every path entry -> ret of fn passes a restore (directly or through a restore-like callee) and fn takes nothing:
        an extracted helper that puts the hold character back"""
        key = ('R', fn.name)
        if key in s._takelike: return s._takelike[key]
        s._takelike[key] = False
        if depth > 3 or not fn.blocks: return False
        a = s.fa(fn)
        r = False
        if not a.takes():
            rs = list(a.restores())
            for c in fn.ins:
                if c.op in ('call', 'invoke'):
                    g = s.callee_fn(c, fn)
                    if g is not None and s.restore_like(g, depth + 1): rs.append(c)
            if rs:
                cfg = s.prog.cfg(fn)
                rr = cfg.reach(fn.entry.ins[0], avoid=rs, include_start=True)
                r = not any(x.op == 'ret' for x in rr)
        s._takelike[key] = r
        return r

    def restore_sites(s, fn):
        """restore instructions of fn: the store shape and calls to restore-like callees"""
        a = s.fa(fn)
        out = list(a.restores())
        for c in fn.ins:
            if c.op in ('call', 'invoke'):
                g = s.callee_fn(c, fn)
                if g is not None and s.restore_like(g): out.append(c)
        return out

    def calls(s, fn, *roles):
        return [c for c in fn.ins if c.op in ('call', 'invoke') and fn_role(s.callee(c)) in roles]

    def callee_fn(s, c, notself=None):
        """the function defined in this unit that a call instruction calls, else None"""
        n = s.callee(c)
        if n is None or (notself is not None and n == notself.name): return None
        return s.mod.functions.get(n)


class FnAnalysis:
    """buffer-pointer taint inside one function.  A value is a pointer into the buffer if it is loaded from
    yy_c_buf_p / yytext_ptr / yy_ch_buf / yy_last_accepting_cpos / yy_full_match / yy_buf_pos, loaded from a local
    that is assigned such a value somewhere, a parameter that receives one at a call site, or computed from one
    by getelementptr / casts / phi / select.  Names of locals play no role."""
    def __init__(s, sc, fn, tainted_params=()):
        s.sc = sc; s.fn = fn; s.res = ir.Resolver(fn)
        s.tparams = set(tainted_params)
        s.locals = set()
        s._memo = {}
        s._loc = {}
        # stores to locals
        s.lstores = {}
        for x in fn.ins:
            if x.op == 'store':
                l = s.loc(x.ops[1])
                if l[0] == 'local': s.lstores.setdefault(l[1], []).append(x)
        changed = True
        while changed:
            changed = False
            s._memo = {}
            for L, sts in s.lstores.items():
                if L in s.locals: continue
                if any(s.is_buf_ptr(x.ops[0]) for x in sts):
                    s.locals.add(L); changed = True
        s._memo = {}
        s._table_locals = None

    def loc(s, p):
        k = p if p[0] in ('reg', 'glob') else None
        if k is not None and k in s._loc: return s._loc[k]
        r = s.res.loc(p)
        if k is not None: s._loc[k] = r
        return r

    def is_buf_ptr(s, v, depth=0):
        if not isinstance(v, tuple) or depth > 30: return False
        if v[0] == 'reg':
            if v[1] in s._memo: return s._memo[v[1]]
            s._memo[v[1]] = False
            r = s._is_buf_ptr_reg(v, depth)
            s._memo[v[1]] = r
            return r
        if v[0] == 'ccast': return s.is_buf_ptr(v[2], depth + 1)
        if v[0] == 'cgep': return s.is_buf_ptr(v[2], depth + 1)
        return False

    def _is_buf_ptr_reg(s, v, depth):
        d = s.fn.def_of(v)
        if d is None:
            return v[1] in s.tparams
        if d.op == 'load':
            if d.ty is None or d.ty.k != 'ptr': return False
            l = s.loc(d.ops[0])
            if l[0] == 'local': return l[1] in s.locals
            return cell_role(l) in PTR_ROLES
        if d.op in ('getelementptr', 'bitcast', 'addrspacecast'):
            return s.is_buf_ptr(d.ops[0], depth + 1)
        if d.op == 'phi': return any(s.is_buf_ptr(o, depth + 1) for o in d.ops)
        if d.op == 'select': return any(s.is_buf_ptr(o, depth + 1) for o in d.ops[1:])
        return False

    def ptr_root(s, v, depth=0):
        """(root, constant offset) of a pointer value: root = ('cell', ROLE) or ('local', name) for the load it is derived
        from by getelementptr with constant indices / casts; (None, None) when it is not of that shape"""
        off = 0
        while depth < 20:
            depth += 1
            if not isinstance(v, tuple) or v[0] != 'reg': return (None, None)
            d = s.fn.def_of(v)
            if d is None: return (None, None)
            if d.op == 'bitcast': v = d.ops[0]; continue
            if d.op == 'getelementptr' and len(d.ops) == 2 and d.ops[1][0] == 'int':
                off += d.ops[1][1]; v = d.ops[0]; continue
            if d.op == 'load':
                l = s.loc(d.ops[0])
                if l[0] == 'local': return (('local', l[1]), off)
                r = cell_role(l)
                return ((('cell', r), off) if r else (None, None))
            return (None, None)
        return (None, None)

    def ptr_cells(s, v, depth=0, seen=None):
        """roles of the cells a pointer value is ultimately derived from (through locals, getelementptr with any index)"""
        if seen is None: seen = set()
        out = set()
        if not isinstance(v, tuple) or v[0] != 'reg' or depth > 20: return out
        d = s.fn.def_of(v)
        if d is None:
            if v[1] in s.tparams: out.add('PARAM')
            return out
        if d.op in ('getelementptr', 'bitcast'): return s.ptr_cells(d.ops[0], depth + 1, seen)
        if d.op in ('phi', 'select'):
            for o in (d.ops if d.op == 'phi' else d.ops[1:]): out |= s.ptr_cells(o, depth + 1, seen)
            return out
        if d.op == 'load':
            l = s.loc(d.ops[0])
            if l[0] == 'local':
                if l[1] in seen: return out
                seen.add(l[1])
                for st in s.lstores.get(l[1], []): out |= s.ptr_cells(st.ops[0], depth + 1, seen)
                return out
            r = cell_role(l)
            if r: out.add(r)
        return out

    # ---- accesses
    def role_of(s, x):
        """role of the cell a load/store instruction accesses (exact location), else None"""
        p = x.ops[0] if x.op == 'load' else x.ops[1]
        return cell_role(s.loc(p))

    def cell_loads(s, role):
        return [x for x in s.fn.ins if x.op == 'load' and s.role_of(x) == role and (role not in PTR_ROLES or (x.ty is not None and x.ty.k == 'ptr'))]

    def cell_stores(s, role):
        return [x for x in s.fn.ins if x.op == 'store' and s.role_of(x) == role and (role not in PTR_ROLES or (x.ty is not None and x.ty.k == 'ptr'))]

    def local_loads(s, L):
        return [x for x in s.fn.ins if x.op == 'load' and s.loc(x.ops[0]) == ('local', L)]

    def local_stores(s, L):
        return list(s.lstores.get(L, []))

    def is_byte(s, t):
        return t is not None and t.k == 'int' and t.a == 8

    def byte_loads(s):
        """loads of a byte through a pointer into the buffer"""
        return [x for x in s.fn.ins if x.op == 'load' and s.is_byte(x.ty) and s.is_buf_ptr(x.ops[0])]

    def byte_stores(s):
        return [x for x in s.fn.ins if x.op == 'store' and s.is_byte(x.ty) and s.is_buf_ptr(x.ops[1])]

    def restores(s):
        """store, through a pointer into the buffer, of the value loaded from yy_hold_char"""
        out = []
        for x in s.byte_stores():
            d = s.fn.def_of(x.ops[0])
            if d is not None and d.op == 'load' and cell_role(s.loc(d.ops[0])) == 'HOLD': out.append(x)
        return out

    def takes(s):
        """store to yy_hold_char of a byte loaded through a pointer into the buffer"""
        out = []
        for x in s.fn.ins:
            if x.op == 'store' and s.role_of(x) == 'HOLD':
                d = s.fn.def_of(x.ops[0])
                if d is not None and d.op == 'load' and s.is_byte(d.ty) and s.is_buf_ptr(d.ops[0]): out.append(x)
        return out

    def move_events(s):
        """instructions that move or reallocate the text: a byte copied from the buffer into the buffer, or the
        result of yyrealloc stored into yy_ch_buf"""
        out = []
        for x in s.byte_stores():
            d = s.fn.def_of(x.ops[0])
            if d is not None and d.op == 'load' and s.is_byte(d.ty) and s.is_buf_ptr(d.ops[0]): out.append(x)
        out += s.realloc_stores()
        return out

    def realloc_stores(s):
        """stores into yy_ch_buf of the result of yyrealloc"""
        out = []
        for x in s.fn.ins:
            if x.op == 'store' and s.role_of(x) == 'CHBUF':
                v = flow.strip_casts(s.fn, x.ops[0])
                d = s.fn.def_of(v)
                if d is not None and d.op in ('call', 'invoke') and fn_role(d.callee) == 'REALLOC': out.append(x)
        return out

    # ---- scanner tables
    def table_locals(s):
        if s._table_locals is None:
            s._table_locals = set()
            changed = True
            while changed:
                changed = False
                for L, sts in s.lstores.items():
                    if L in s._table_locals: continue
                    if any(s.is_table_ptr(x.ops[0]) for x in sts):
                        s._table_locals.add(L); changed = True
        return s._table_locals

    def is_table_ptr(s, v, depth=0):
        """pointer into one of the scanner's DFA tables"""
        if not isinstance(v, tuple) or depth > 30: return False
        if v[0] == 'glob': return canon(v[1]) in TABLES
        if v[0] in ('ccast',): return s.is_table_ptr(v[2], depth + 1)
        if v[0] == 'cgep': return s.is_table_ptr(v[2], depth + 1)
        if v[0] != 'reg': return False
        d = s.fn.def_of(v)
        if d is None: return False
        if d.op == 'load':
            if d.ty is None or d.ty.k != 'ptr': return False
            l = s.loc(d.ops[0])
            if l[0] == 'local': return s._table_locals is not None and l[1] in s._table_locals
            if l[0] == 'global': return canon(l[1]) in TABLES
            if l[0] == 'field': return canon(l[2]) in TABLES
            # a pointer stored in a table (yy_start_state_list[] holds pointers into yy_transition)
            return s.is_table_ptr(d.ops[0], depth + 1)
        if d.op in ('getelementptr', 'bitcast'): return s.is_table_ptr(d.ops[0], depth + 1)
        if d.op == 'phi': return any(s.is_table_ptr(o, depth + 1) for o in d.ops)
        if d.op == 'select': return any(s.is_table_ptr(o, depth + 1) for o in d.ops[1:])
        return False

    def table_loads(s):
        s.table_locals()
        return [x for x in s.fn.ins if x.op == 'load' and s.is_table_ptr(x.ops[0])]


# ---------------------------------------------------------------- CFG helpers

def first_ins(blk):
    return blk.ins[0]

def loops(cfg):
    """natural loops: header block -> set of body blocks"""
    out = {}
    rb = cfg.reachable_blocks()
    for u in cfg.blocks:
        if u not in rb: continue
        for h in cfg.succ[u]:
            if cfg.dominates(h, u):
                body = out.setdefault(h, {h})
                st = [u]
                while st:
                    b = st.pop()
                    if b in body: continue
                    body.add(b)
                    st.extend(cfg.pred[b])
    return out

def outermost_loop_header(cfg, blk):
    """header of the outermost natural loop that contains blk"""
    best = None
    for h, body in loops(cfg).items():
        if blk in body and (best is None or cfg.dominates(h, best)): best = h
    return best

def witness(cfg, a, b, avoid=(), include_start=False):
    p = cfg.path(a, lambda x: x is b, avoid=avoid, include_start=include_start)
    if not p: return None
    return ['%s:%s' % (x.blk.name, x.line) for x in p]

def cond_icmps(fn, v, depth=0, seen=None):
    """comparisons that decide a branch condition; clang -O0 renders `a && b` as a phi of constants and the
    last comparison, the earlier comparisons sit on the terminators of the phi's predecessor blocks"""
    if seen is None: seen = set()
    if depth > 12 or not isinstance(v, tuple) or v[0] != 'reg' or v[1] in seen: return []
    seen.add(v[1])
    d = fn.def_of(v)
    if d is None: return []
    if d.op == 'icmp': return [d]
    if d.op == 'phi':
        out = []
        for o, lab in zip(d.ops, d.cases):
            if o[0] == 'reg': out += cond_icmps(fn, o, depth + 1, seen)
            else:
                t = fn.bmap[lab].ins[-1]
                if t.op == 'br' and t.ops: out += cond_icmps(fn, t.ops[0], depth + 1, seen)
        return out
    if d.op in ('xor', 'and', 'or', 'zext', 'trunc', 'select'):
        out = []
        for o in d.ops: out += cond_icmps(fn, o, depth + 1, seen)
        return out
    return []

def result_switch(fn, call):
    """the switch instruction on the result of `call` (directly or through one local), else None"""
    uses = fn.uses()
    vals = {call.res}
    for u in uses.get(call.res, []):
        if u.op == 'store' and u.ops[0] == ('reg', call.res):
            d = fn.def_of(u.ops[1])
            if d is not None and d.op == 'alloca':
                for x in fn.ins:
                    if x.op == 'load' and x.ops[0] == u.ops[1]: vals.add(x.res)
    for x in fn.ins:
        if x.op == 'switch' and x.ops and x.ops[0][0] == 'reg' and x.ops[0][1] in vals: return x
    return None

def returned_constants(sc, fn):
    """integer constants a function can return: constants in `ret` operands and constants stored to locals whose
    loads are returned"""
    out = {}
    a = sc.fa(fn)
    def from_value(v, seen):
        if v[0] == 'int': return [(v[1], None)]
        d = fn.def_of(v)
        if d is None: return []
        if d.op == 'load':
            l = a.loc(d.ops[0])
            if l[0] == 'local' and l[1] not in seen:
                seen.add(l[1])
                r = []
                for st in a.local_stores(l[1]):
                    if st.ops[0][0] == 'int': r.append((st.ops[0][1], st))
                    else: r += from_value(st.ops[0], seen)
                return r
        return []
    for x in fn.ins:
        if x.op == 'ret' and x.ops:
            for c, st in from_value(x.ops[0], set()):
                out.setdefault(c, []).append(st)
    return out

def eof_code(sc, lex, gnb):
    """(constants yy_get_next_buffer can return, the subset that means end-of-file).  EOB_ACT_END_OF_FILE is the
    code on which yylex consults yywrap(): the arm of the switch on yy_get_next_buffer()'s result that resets
    yy_did_buffer_switch_on_eof (reachable from the arm without passing the yy_get_next_buffer call again)."""
    consts = returned_constants(sc, gnb)
    a = sc.fa(lex); cfg = sc.prog.cfg(lex)
    ds = set(a.cell_stores('DIDSWITCH'))
    hits = set()
    for call in sc.calls(lex, 'GNB'):
        sw, arms = gnb_arms(sc, lex, call, None)
        if sw is None: continue
        for c, blk in arms.items():
            r = cfg.reach(first_ins(blk), avoid=[call], include_start=True)
            if any(x in ds for x in r): hits.add(c)
    return consts, hits

def gnb_arms(sc, fn, call, eof):
    """(switch, {const: block}) for the switch on the result of a yy_get_next_buffer call"""
    sw = result_switch(fn, call)
    if sw is None: return None, {}
    return sw, {c: fn.bmap[l] for c, l in sw.cases}

# ---------------------------------------------------------------- a small concrete interpreter

def _wrap(val, bits, signed=True):
    if val is None or bits is None: return val
    val &= (1 << bits) - 1
    if signed and val >= 1 << (bits - 1): val -= 1 << bits
    return val

def _bits(t):
    return t.a if t is not None and t.k == 'int' else (64 if t is not None and t.k == 'ptr' else None)

def step_value(fn, a, x, env, regs, prev):
    """value of instruction x (None = unknown) given locals env and registers regs"""
    def val(o):
        if o[0] == 'int': return o[1]
        if o[0] == 'null': return 0
        if o[0] == 'reg': return regs.get(o[1])
        return None
    op = x.op
    if op == 'load':
        l = a.loc(x.ops[0])
        return env.get(l[1]) if l[0] == 'local' else None
    if op in ('sext', 'bitcast'): return val(x.ops[0])
    if op == 'zext':
        v_ = val(x.ops[0]); b = _bits(x.srcty)
        return None if v_ is None else (v_ & ((1 << b) - 1) if b else v_)
    if op == 'trunc': return _wrap(val(x.ops[0]), _bits(x.ty))
    if op in ('add', 'sub', 'mul', 'and', 'or', 'xor'):
        p_, q_ = val(x.ops[0]), val(x.ops[1])
        if p_ is None or q_ is None: return None
        r = {'add': p_ + q_, 'sub': p_ - q_, 'mul': p_ * q_, 'and': p_ & q_, 'or': p_ | q_, 'xor': p_ ^ q_}[op]
        b = _bits(x.ty)
        return (r & 1) if b == 1 else _wrap(r, b)
    if op == 'icmp':
        p_, q_ = val(x.ops[0]), val(x.ops[1])
        if p_ is None or q_ is None: return None
        b = _bits(x.ty) or 64
        up, uq = p_ & ((1 << b) - 1), q_ & ((1 << b) - 1)
        sp, sq = _wrap(p_, b), _wrap(q_, b)
        return int({'eq': up == uq, 'ne': up != uq, 'ugt': up > uq, 'uge': up >= uq, 'ult': up < uq, 'ule': up <= uq,
                    'sgt': sp > sq, 'sge': sp >= sq, 'slt': sp < sq, 'sle': sp <= sq}[x.pred])
    if op == 'select':
        c = val(x.ops[0])
        return None if c is None else val(x.ops[1] if c else x.ops[2])
    if op == 'phi':
        for o, lab in zip(x.ops, x.cases):
            if prev is not None and lab == prev.name: return val(o)
        return None
    return None

def simulate(sc, fn, start, env, regs=None, on_ins=None, limit=3000):
    """run fn concretely from the instruction after `start` with the locals in env (alloca name -> int); every other
    memory location and every call result is unknown; a branch on an unknown value forks.  on_ins(x, env, regs) is called
    for every instruction reached and may return 'stop' to end that path.  Returns the set of returned values (None =
    unknown) of the paths that reach a `ret`.  Paths end at calls of no-return functions."""
    a = sc.fa(fn); cfg = sc.prog.cfg(fn)
    rets = set(); seen = set(); steps = 0
    work = [(start.blk, start.idx + 1, dict(env), dict(regs or {}), None)]
    while work:
        blk, k, env_, regs_, prev = work.pop()
        key = (blk.name, k, tuple(sorted(env_.items())), prev.name if prev is not None else None)
        if key in seen: continue
        seen.add(key)
        n = cfg._live_len(blk)
        stop = False
        for j in range(k, n):
            x = blk.ins[j]
            steps += 1
            if steps > limit: return rets | {('limit',)}
            if on_ins is not None and on_ins(x, env_, regs_) == 'stop': stop = True; break
            if x.op == 'store':
                l = a.loc(x.ops[1])
                if l[0] == 'local':
                    o = x.ops[0]
                    env_[l[1]] = o[1] if o[0] == 'int' else (regs_.get(o[1]) if o[0] == 'reg' else None)
                continue
            if x.op == 'ret':
                o = x.ops[0] if x.ops else None
                rets.add(None if o is None else (o[1] if o[0] == 'int' else regs_.get(o[1]) if o[0] == 'reg' else None))
                stop = True; break
            if x.op == 'br':
                if not x.ops: work.append((fn.bmap[x.targets[0]], 0, env_, regs_, blk))
                else:
                    c = regs_.get(x.ops[0][1]) if x.ops[0][0] == 'reg' else (x.ops[0][1] if x.ops[0][0] == 'int' else None)
                    tg = [x.targets[0]] if c else [x.targets[1]]
                    if c is None: tg = list(x.targets)
                    for t in tg:
                        if fn.bmap[t] in cfg.succ[blk]: work.append((fn.bmap[t], 0, dict(env_), dict(regs_), blk))
                stop = True; break
            if x.op == 'switch':
                c = regs_.get(x.ops[0][1]) if x.ops[0][0] == 'reg' else None
                if c is None: tg = list(x.targets)
                else: tg = [next((l for cv, l in x.cases if cv == c), x.callee)]
                for t in tg:
                    if fn.bmap[t] in cfg.succ[blk]: work.append((fn.bmap[t], 0, dict(env_), dict(regs_), blk))
                stop = True; break
            if x.res is not None:
                regs_[x.res] = step_value(fn, a, x, env_, regs_, prev)
        if stop: continue
    return rets

# ---------------------------------------------------------------- R1

def r1(ctx, sc, lex, gnb, consts, eof):
    rep = ctx.rep; v = sc.v; n = 0
    a = sc.fa(lex); cfg = sc.prog.cfg(lex)
    gps = sc.calls(lex, 'GPS')
    # state locals: locals that receive the result of yy_get_previous_state / yy_try_NUL_trans
    state_locals = set()
    for c in sc.calls(lex, 'GPS', 'NUL'):
        for u in lex.uses().get(c.res, []):
            if u.op == 'store' and u.ops[0] == ('reg', c.res):
                l = a.loc(u.ops[1])
                if l[0] == 'local': state_locals.add(l[1])
    targets = set(a.table_loads())
    for L in state_locals: targets |= set(a.local_loads(L))
    for call in sc.calls(lex, 'GNB'):
        sw, arms = gnb_arms(sc, lex, call, eof)
        if sw is None:
            rep.broken('%s: the result of yy_get_next_buffer() in %s does not feed a switch' % (v.name, lex.name))
        for c in sorted(consts):
            if c in eof: continue
            key = 'C03.R1:%s:yylex:refill-arm-%d' % (skel(v), c)
            n += 1
            if c not in arms:
                # no arm: the value goes to the default label; it must not reach the match loop
                blk = lex.bmap[sw.callee]
            else: blk = arms[c]
            r = cfg.reach(first_ins(blk), avoid=gps, include_start=True)
            bad = [x for x in r if x in targets]
            if bad:
                bad.sort(key=lambda x: (x.line or 0))
                rep.fail('C03.R1', key, where(first_ins(blk)),
                         'after yy_get_next_buffer() returned %d the scan goes on (load at line %s) without recomputing the state with '
                         'yy_get_previous_state() [variant %s]' % (c, bad[0].line, v.name),
                         witness=witness(cfg, first_ins(blk), bad[0], avoid=gps, include_start=True), variant=v.describe())
            else:
                rep.ok('C03.R1', '%s yylex: arm %d of switch(yy_get_next_buffer())@%s passes yy_get_previous_state() before any state/table load' % (v.name, c, sw.line))
    return n

# ---------------------------------------------------------------- R2

def stale_use(sc, fn, start_blk, what):
    """first use of a stale pointer on a path from the start of start_blk.
    what = ('local', L) or ('cell', ROLE).  Returns (ins, cfg) or (None, cfg)."""
    a = sc.fa(fn); cfg = sc.prog.cfg(fn)
    if what[0] == 'local':
        kills = a.local_stores(what[1]); uses = set(a.local_loads(what[1]))
    else:
        role = what[1]
        kills = list(a.cell_stores(role))
        # a callee that (transitively) assigns the cell re-establishes it
        for c in fn.ins:
            if c.op in ('call', 'invoke') and sc.callee(c) is not None and fn_role(sc.callee(c)) not in ('GPS', 'NUL', 'GNB'):
                if may_store(sc, sc.callee(c), role): kills.append(c)
        uses = set(a.cell_loads(role)) | set(sc.calls(fn, 'GPS', 'NUL', 'GNB'))
    r = cfg.reach(first_ins(start_blk), avoid=kills, include_start=True)
    bad = sorted([x for x in r if x in uses], key=lambda x: (x.blk.fn.blocks.index(x.blk), x.idx))
    if bad:
        # prefer the use closest to the start (shortest witness)
        best = None
        for x in bad:
            p = cfg.path(first_ins(start_blk), lambda y, x=x: y is x, avoid=kills, include_start=True)
            if p and (best is None or len(p) < len(best[1])): best = (x, p)
        return best[0], ['%s:%s' % (y.blk.name, y.line) for y in best[1]]
    return None, None

_ms_cache = {}
def may_store(sc, callee, role):
    """callee (defined in the unit) transitively contains a store to the cell"""
    key = (id(sc), role)
    m = _ms_cache.get(key)
    if m is None:
        direct = set()
        for f in sc.mod.functions.values():
            if sc.fa(f).cell_stores(role): direct.add(f.name)
        g = sc.prog.callgraph()
        m = set(direct); changed = True
        while changed:
            changed = False
            for n, cs in g.items():
                if n not in m and cs & m: m.add(n); changed = True
        _ms_cache.clear()
        _ms_cache[key] = m
    return callee in m

def r2(ctx, sc, lex, gnb, consts, eof):
    rep = ctx.rep; v = sc.v; n = 0
    ga = sc.fa(gnb); gcfg = sc.prog.cfg(gnb)
    ev = ga.move_events()
    if not ev:
        rep.broken('%s: no move of the text (byte copy within the buffer / yyrealloc of yy_ch_buf) found in %s' % (v.name, gnb.name))
    # (a) yytext_ptr re-derived after the last move
    ts = ga.cell_stores('TEXT')
    n += 1
    key = 'C03.R2:%s:yy_get_next_buffer:yytext_ptr-rederived' % skel(v)
    bad = None
    for e in ev:
        r = gcfg.reach(e, avoid=ts)
        rets = [x for x in r if x.op == 'ret']
        if rets: bad = (e, rets[0]); break
    if bad:
        rep.fail('C03.R2', key, where(bad[0]), 'yy_get_next_buffer can return after moving the text (line %s) without re-assigning yytext_ptr [variant %s]' % (bad[0].line, v.name),
                 witness=witness(gcfg, bad[0], bad[1], avoid=ts), variant=v.describe())
    else:
        rep.ok('C03.R2', '%s yy_get_next_buffer: %d move events, yytext_ptr re-assigned (@%s) on every path to return' % (v.name, len(ev), ','.join(str(x.line) for x in ts)))
    # (b) after its own realloc: nothing that pointed into the old block is loaded before re-assignment
    for e in ga.realloc_stores():
        things = [('local', L) for L in sorted(ga.locals)] + [('cell', 'CBUFP'), ('cell', 'TEXT')]
        ordn = sum(1 for y in ga.realloc_stores() if (gnb.blocks.index(y.blk), y.idx) < (gnb.blocks.index(e.blk), e.idx))
        for w in things:
            n += 1
            if w[0] == 'local':
                kills = ga.local_stores(w[1]); uses = set(ga.local_loads(w[1])); nm = w[1]
            else:
                kills = ga.cell_stores(w[1]); uses = set(ga.cell_loads(w[1])); nm = {'CBUFP': 'yy_c_buf_p', 'TEXT': 'yytext_ptr'}[w[1]]
            r = gcfg.reach(e, avoid=kills)
            b = sorted([x for x in r if x in uses], key=lambda x: x.line or 0)
            key = 'C03.R2:%s:yy_get_next_buffer:realloc#%d:%s' % (skel(v), ordn, nm if w[0] == 'cell' else 'local-pointer')
            if b:
                rep.fail('C03.R2', key, where(b[0]), 'after yyrealloc of yy_ch_buf (line %s) %s still points into the old block when it is loaded at line %s [variant %s]' % (e.line, nm, b[0].line, v.name),
                         witness=witness(gcfg, e, b[0], avoid=kills), variant=v.describe())
            else:
                rep.ok('C03.R2', '%s yy_get_next_buffer: after realloc@%s %s is not loaded before re-assignment' % (v.name, e.line, nm))
    # (c) callers: the arms that go on scanning
    for role in ('LEX', 'INPUT'):
        for fn in sc.fns(role):
            fa_ = sc.fa(fn)
            for call in sc.calls(fn, 'GNB'):
                sw, arms = gnb_arms(sc, fn, call, eof)
                if sw is None:
                    rep.broken('%s: the result of yy_get_next_buffer() in %s does not feed a switch' % (v.name, fn.name))
                for c in sorted(consts):
                    if c in eof or c not in arms: continue
                    things = [('cell', 'CBUFP')] + [('local', L) for L in sorted(fa_.locals)]
                    for w in things:
                        n += 1
                        x, wit = stale_use(sc, fn, arms[c], w)
                        nm = 'yy_c_buf_p' if w[0] == 'cell' else 'local-pointer'
                        key = 'C03.R2:%s:%s:refill-arm-%d:%s' % (skel(v), norm(fn.name), c, nm)
                        if x is not None:
                            what = 'yy_c_buf_p' if w[0] == 'cell' else 'the local %s (a pointer into the buffer)' % w[1]
                            rep.fail('C03.R2', key, where(x), 'after yy_get_next_buffer() returned %d, %s is used at line %s before it is re-assigned; the text has moved [variant %s]' % (c, what, x.line, v.name),
                                     witness=wit, variant=v.describe())
                        else:
                            rep.ok('C03.R2', '%s %s arm %d: %s re-assigned before use' % (v.name, fn.name, c, w[1]))
    # (d) yylex: calls (in actions) to functions that move the text
    prim, mv = sc.movers()
    la = sc.fa(lex); lcfg = sc.prog.cfg(lex)
    for call in lex.ins:
        if call.op not in ('call', 'invoke') or not isinstance(call.callee, str): continue
        if call.callee not in mv or fn_role(call.callee) in ('GNB', 'LEX'): continue
        for L in sorted(la.locals):
            n += 1
            kills = la.local_stores(L); uses = set(la.local_loads(L))
            r = lcfg.reach(call, avoid=kills)
            b = sorted([x for x in r if x in uses], key=lambda x: x.line or 0)
            key = 'C03.R2:%s:yylex:after-%s:local-pointer' % (skel(v), norm(call.callee))
            if b:
                rep.fail('C03.R2', key, where(b[0]), 'after the call to %s (which moves the text) the local %s is loaded at line %s before it is re-assigned [variant %s]' % (call.callee, L, b[0].line, v.name),
                         witness=witness(lcfg, call, b[0], avoid=kills), variant=v.describe())
            else:
                rep.ok('C03.R2', '%s yylex: after %s@%s local %s re-assigned before use' % (v.name, call.callee, call.line, L))
    return n

# ---------------------------------------------------------------- R3

def null_test_fatal(sc, fn, cfg, start_blk, role):
    """from start_blk every path reaches, before any ret, a branch on null of a load of the cell whose null edge
    cannot return (fatal hook).  Returns the branch or None."""
    a = sc.fa(fn)
    tests = []
    for b in fn.blocks:
        br = b.ins[-1]
        bn = flow.branch_on_null(fn, br) if br.op == 'br' else None
        if bn is None: continue
        d = fn.def_of(flow.strip_casts(fn, bn[0]))
        if d is None or d.op != 'load' or cell_role(a.loc(d.ops[0])) != role: continue
        nb = fn.bmap[bn[1]]
        rr = cfg.reach_from_block(nb)
        if not any(x.op == 'ret' for x in rr) and not any(t is b for t in cfg.succ[nb]):
            tests.append(br)
    if not tests: return None
    r = cfg.reach(first_ins(start_blk), avoid=tests, include_start=True)
    if any(x.op == 'ret' for x in r): return None
    return tests[0]

def r3(ctx, sc, gnb):
    rep = ctx.rep; v = sc.v
    a = sc.fa(gnb)
    cfg = sc.prog.cfg(gnb); cfgp = sc.prog.cfg(gnb, cut=False)
    n = 0
    cands = []
    for st in a.realloc_stores():
        deps = cfgp.control_deps_closure(st.blk)
        for br, t in deps:
            if any(cell_role(l) == 'OURBUF' for d, l in flow.cond_loads(gnb, br, a.res)):
                cands.append((st, br, t))
    if 'M4_MODE_USES_REJECT' in variants.mode_symbols(v):      # also follows from variable trailing context
        if cands:
            rep.note('%s: REJECT variant has a growth arm in yy_get_next_buffer' % v.name)
        return 0
    key = 'C03.R3:%s:yy_get_next_buffer:grow' % skel(v)
    n += 1
    if not cands:
        rep.fail('C03.R3', key, fwhere(gnb), 'no yyrealloc of yy_ch_buf that is control dependent on yy_is_our_buffer in yy_get_next_buffer [variant %s]' % v.name, variant=v.describe())
        return n
    st, br, t = cands[0]
    other = [x for x in cfg.succ[br.blk] if x is not t]
    # (i) the region is control dependent on a comparison `<= 0` of the room that is left
    deps = cfgp.control_deps_closure(st.blk)
    room = [b for b, _ in deps if b is not br and _is_le0(gnb, b)]
    # (ii) the other edge stores null into yy_ch_buf before it meets the null test
    ok_other = False
    if other:
        ns = [x for x in a.cell_stores('CHBUF') if x.ops[0] == ('null',)]
        rr = cfg.reach(first_ins(other[0]), avoid=ns, include_start=True)
        tests_after = null_test_fatal(sc, gnb, cfg, other[0], 'CHBUF')
        # every path from the other edge passes a null store before the null test
        ok_other = bool(ns) and tests_after is not None and tests_after not in rr
    # (iii) the realloc edge meets the same null test
    tst = null_test_fatal(sc, gnb, cfg, st.blk, 'CHBUF')
    if not room:
        rep.fail('C03.R3', key + ':room-test', where(st), 'the growth of yy_ch_buf is not controlled by a test of the room left (num_to_read <= 0) [variant %s]' % v.name, variant=v.describe())
    elif not ok_other:
        rep.fail('C03.R3', key + ':not-ours', where(br), 'when the buffer is not ours the scanner does not refuse (null store + fatal null test) [variant %s]' % v.name, variant=v.describe())
    elif tst is None:
        rep.fail('C03.R3', key + ':alloc-failure', where(st), 'a failed yyrealloc of yy_ch_buf does not reach the fatal hook [variant %s]' % v.name, variant=v.describe())
    else:
        rep.ok('C03.R3', '%s yy_get_next_buffer: realloc@%s under yy_is_our_buffer@%s and room test@%s; not-ours edge stores null; null test@%s is fatal' % (v.name, st.line, br.line, room[0].line, tst.line))
    return n

def _is_le0(fn, br):
    if br.op != 'br' or not br.ops: return False
    d = fn.def_of(br.ops[0])
    if d is None or d.op != 'icmp': return False
    return (d.pred in ('sle', 'slt') and d.ops[1] in (('int', 0), ('int', 1))) or (d.pred in ('sgt', 'sge') and d.ops[1] in (('int', 0), ('int', 1)))

# ---------------------------------------------------------------- R4

def r4(ctx, sc):
    rep = ctx.rep; v = sc.v
    fn = sc.fn('READ')
    if fn is None: return 0
    getcs = [c for c in fn.ins if c.op == 'call' and c.callee in ('getc', '_IO_getc', 'fgetc', 'getc_unlocked')]
    if not getcs: return 0
    a = sc.fa(fn); cfg = sc.prog.cfg(fn); cfgp = sc.prog.cfg(fn, cut=False)
    n = 0
    for g in getcs:
        n += 1
        key = 'C03.R4:%s:yyread:getc-loop' % skel(v)
        lp = loops(cfg)
        body = None
        for h, bd in lp.items():
            if g.blk in bd and (body is None or len(bd) < len(body)): body = bd
        if body is None:
            rep.fail('C03.R4', key + ':loop', where(g), 'getc in yyread is not inside a loop [variant %s]' % v.name, variant=v.describe()); continue
        inter = any(cell_role(l) == 'INTERACTIVE' for br, t in cfgp.control_deps_closure(g.blk) for d, l in flow.cond_loads(fn, br, a.res))
        # the local that receives the byte
        cl = set()
        for u in fn.uses().get(g.res, []):
            if u.op == 'store' and u.ops[0] == ('reg', g.res):
                l = a.loc(u.ops[1])
                if l[0] == 'local': cl.add(l[1])
        def from_getc(val):
            d = fn.def_of(val)
            if d is g: return True
            if d is not None and d.op == 'load':
                l = a.loc(d.ops[0])
                return l[0] == 'local' and l[1] in cl
            return False
        maxp = {p + '.addr' for t, p in fn.params if p and t.k == 'int'}
        found = {}
        for b in body:
            br = b.ins[-1]
            if br.op != 'br' or not br.ops: continue
            if all(t in body for t in cfg.succ[b]): continue       # not an exit edge
            def is_max(val):
                dd = fn.def_of(val)
                return dd is not None and dd.op == 'load' and a.loc(dd.ops[0])[0] == 'local' and a.loc(dd.ops[0])[1] in maxp
            # && chains reach the exit branch through a phi of the individual comparisons
            for d in cond_icmps(fn, br.ops[0]):
                if d.blk not in body: continue
                x, y = d.ops
                if y[0] == 'int' and from_getc(x):
                    if y[1] == 10: found['newline'] = d
                    if y[1] == -1: found['eof'] = d
                elif is_max(x) or is_max(y): found['max_size'] = d
        miss = [k for k in ('newline', 'eof', 'max_size') if k not in found]
        # the byte is taken from the stream only when there is room for it: the branch on the max_size comparison
        # dominates the getc call and getc sits on exactly one side of it
        room_first = False
        if 'max_size' in found:
            for b in body:
                br = b.ins[-1]
                if br.op != 'br' or not br.ops or b is g.blk: continue
                if found['max_size'] not in cond_icmps(fn, br.ops[0]) or found['max_size'].blk is not b: continue
                sides = [t for t in cfg.succ[b] if t is g.blk or cfg.dominates(t, g.blk)]
                if cfg.dominates(b, g.blk) and len(sides) == 1: room_first = True
        if not inter:
            rep.fail('C03.R4', key + ':interactive', where(g), 'the getc loop of yyread is not controlled by yy_is_interactive [variant %s]' % v.name, variant=v.describe())
        elif miss:
            rep.fail('C03.R4', key + ':' + miss[0], where(g), 'the interactive getc loop of yyread has no exit edge on %s [variant %s]' % (miss[0], v.name), variant=v.describe())
        elif not room_first:
            rep.fail('C03.R4', key + ':room-before-getc', where(g), 'in the interactive loop of yyread getc() is not control dependent on the room test n < max_size: when the room is used up a byte has already been taken from the stream and is dropped [variant %s]' % v.name, variant=v.describe())
        else:
            rep.ok('C03.R4', '%s yyread: getc@%s loop under yy_is_interactive exits on newline@%s, EOF@%s, max_size@%s; the room test dominates getc' % (v.name, g.line, found['newline'].line, found['eof'].line, found['max_size'].line))
    return n

# ---------------------------------------------------------------- R5

class _Unknown(Exception):
    pass

def r5(ctx, sc, consts, eof, rule='C03.R5'):
    """the contract between yyinput and yy_get_next_buffer: the callee keeps yy_c_buf_p - yytext_ptr - 1 bytes and puts the
    new data right behind them, so the offset yyinput saves before the call and uses to re-derive yy_c_buf_p afterwards
    (yy_c_buf_p = yytext_ptr + offset on the continue-scan arm) must be exactly one less than yy_c_buf_p - yytext_ptr at
    the call.  Decided by a symbolic evaluation (position relative to yy_c_buf_p at entry) along the blocks that dominate
    the call."""
    rep = ctx.rep; v = sc.v; n = 0
    for fn in sc.fns('INPUT'):
        a = sc.fa(fn); cfg = sc.prog.cfg(fn)
        for call in sc.calls(fn, 'GNB'):
            sw, arms = gnb_arms(sc, fn, call, eof)
            if sw is None: continue
            # the rebase: yy_c_buf_p = yytext_ptr + <load of a local> on an arm that goes on scanning
            offs = set()
            for c in consts:
                if c in eof or c not in arms: continue
                for st in a.cell_stores('CBUFP'):
                    if not cfg.dominates(arms[c], st.blk): continue
                    g = fn.def_of(st.ops[0])
                    if g is None or g.op != 'getelementptr' or len(g.ops) != 2: continue
                    b = fn.def_of(g.ops[0])
                    if b is None or b.op != 'load' or cell_role(a.loc(b.ops[0])) != 'TEXT': continue
                    i = fn.def_of(flow.int_origin(fn, g.ops[1]))
                    if i is not None and i.op == 'load' and a.loc(i.ops[0])[0] == 'local': offs.add(a.loc(i.ops[0])[1])
            n += 1
            key = 'C03.R5:%s:yyinput:saved-offset-is-one-less-than-scan-position' % skel(v)
            if rule != 'C03.R5': key = '%s:%s:yyinput:refill-resumes-at-the-end-of-buffer-byte' % (rule, skel(v))
            if len(offs) != 1:
                rep.broken('%s: the rebase yy_c_buf_p = yytext_ptr + offset after yy_get_next_buffer() was not found in %s (%s)' % (v.name, fn.name, sorted(offs)))
            O = offs.pop()
            chain = [b for b in fn.blocks if cfg.dominates(b, call.blk)]
            # stores to yy_c_buf_p / yytext_ptr / the offset local outside the chain that can reach the call would make the
            # straight-line evaluation unsound
            side = [x for x in a.cell_stores('CBUFP') + a.cell_stores('TEXT') + a.local_stores(O)
                    if x.blk not in chain and call in cfg.reach(x)]
            cur = {}        # load register -> position of yy_c_buf_p (relative to entry) when it was loaded
            def ptr_rel(val, depth=0):
                d = fn.def_of(val)
                if d is None or depth > 10: raise _Unknown()
                if d.op == 'load' and cell_role(a.loc(d.ops[0])) == 'CBUFP' and d.res in cur: return cur[d.res]
                if d.op == 'getelementptr' and len(d.ops) == 2 and d.ops[1][0] == 'int': return ptr_rel(d.ops[0], depth + 1) + d.ops[1][1]
                if d.op == 'bitcast': return ptr_rel(d.ops[0], depth + 1)
                raise _Unknown()
            def int_rel(val, depth=0):
                """value - (P0 - yytext_ptr) for an integer expression built from one pointer difference"""
                d = fn.def_of(val)
                if d is None or depth > 10: raise _Unknown()
                if d.op in ('trunc', 'sext', 'zext'): return int_rel(d.ops[0], depth + 1)
                if d.op in ('add', 'sub') and d.ops[1][0] == 'int':
                    return int_rel(d.ops[0], depth + 1) + (d.ops[1][1] if d.op == 'add' else -d.ops[1][1])
                if d.op == 'sub':
                    x, y = fn.def_of(d.ops[0]), fn.def_of(d.ops[1])
                    if x is not None and y is not None and x.op == 'ptrtoint' and y.op == 'ptrtoint':
                        t = fn.def_of(y.ops[0])
                        if t is not None and t.op == 'load' and cell_role(a.loc(t.ops[0])) == 'TEXT':
                            return ptr_rel(x.ops[0])
                raise _Unknown()
            pos = 0; oval = None
            try:
                if side: raise _Unknown()
                done = False
                for b in chain:
                    for x in b.ins:
                        if x is call: done = True; break
                        if x.op == 'load' and cell_role(a.loc(x.ops[0])) == 'CBUFP': cur[x.res] = pos
                        elif x.op == 'store':
                            l = a.loc(x.ops[1])
                            if cell_role(l) == 'CBUFP' and x.ty is not None and x.ty.k == 'ptr': pos = ptr_rel(x.ops[0])
                            elif cell_role(l) == 'TEXT' and x.ty is not None and x.ty.k == 'ptr': raise _Unknown()
                            elif l == ('local', O): oval = int_rel(x.ops[0])
                    if done: break
                if oval is None: raise _Unknown()
            except _Unknown:
                rep.broken('%s: the saved offset / yy_c_buf_p before yy_get_next_buffer() in %s is not a plain pointer difference on straight-line code; C03.R5 cannot be decided' % (v.name, fn.name))
            if rule != 'C03.R5':
                # C08: input() returns each character exactly once.  The byte that made yyinput refill sits at the entry
                # position (the end-of-buffer byte); after the refill the first new byte is at the same offset from
                # yytext_ptr, so the saved offset must be taken from the scan pointer while it still points AT that byte.
                if oval == 0:
                    rep.ok(rule, '%s %s: the offset saved before yy_get_next_buffer@%s is that of the end-of-buffer byte (scan pointer as on entry)' % (v.name, fn.name, call.line))
                else:
                    rep.fail(rule, key, where(call), 'yyinput saves the offset of (scan pointer%+d) instead of the end-of-buffer byte it is about to replace: after a successful refill yy_c_buf_p = yytext_ptr + offset is %d byte(s) off and input() %s [variant %s]' % (
                        oval, abs(oval), 'skips the first byte of every new block' if oval > 0 else 'returns a byte twice', v.name), variant=v.describe())
                continue
            if pos - oval == 1:
                rep.ok('C03.R5', '%s %s: at yy_get_next_buffer@%s yy_c_buf_p is entry%+d, the saved offset is (entry%+d) - yytext_ptr: one less' % (v.name, fn.name, call.line, pos, oval))
            else:
                rep.fail('C03.R5', key, where(call), 'yyinput saves offset = (yy_c_buf_p%+d) - yytext_ptr but calls yy_get_next_buffer() with yy_c_buf_p%+d (relative to entry): the callee keeps yy_c_buf_p - yytext_ptr - 1 bytes, so yy_c_buf_p = yytext_ptr + offset %s [variant %s]' % (
                    oval, pos, 'skips the first byte read' if pos - oval < 1 else 'steps back into text already returned', v.name), variant=v.describe())
    return n

# ---------------------------------------------------------------- R6

INIT_CELLS = (('INPUTFILE', 'yy_input_file'), ('FILLBUF', 'yy_fill_buffer'), ('INTERACTIVE', 'yy_is_interactive'))

def r6(ctx, sc):
    """yy_init_buffer attaches a (new) stream to a buffer; yyrestart() calls it for the current buffer as well.  The
    properties that depend on the stream - yy_input_file, yy_fill_buffer and yy_is_interactive (which decides how
    yyread requests input) - are therefore stored on every path to the return, not only when the buffer is not the
    current one (only the line/column counters are kept for the current buffer)."""
    rep = ctx.rep; v = sc.v; n = 0
    for fn in sc.fns('INITBUF'):
        a = sc.fa(fn); cfg = sc.prog.cfg(fn)
        for role, nm in INIT_CELLS:
            sts = [x for x in fn.ins if x.op == 'store' and cell_role(a.loc(x.ops[1])) == role]
            n += 1
            key = 'C03.R6:%s:yy_init_buffer:%s-set-on-every-path' % (skel(v), nm)
            r = cfg.reach(first_ins(fn.entry), avoid=sts, include_start=True)
            rets = [x for x in r if x.op == 'ret']
            if rets:
                rep.fail('C03.R6', key, where(sts[0]) if sts else fwhere(fn), 'yy_init_buffer can return without storing %s: yyrestart() on %s keeps the value of the previous stream [variant %s]' % (
                    nm, 'the current buffer' if sts else 'any buffer', v.name), witness=witness(cfg, first_ins(fn.entry), rets[0], avoid=sts, include_start=True), variant=v.describe())
            else:
                rep.ok('C03.R6', '%s %s: %s stored (@%s) on every path to return' % (v.name, fn.name, nm, ','.join(str(x.line) for x in sts)))
    return n

# ---------------------------------------------------------------- R7

def through_temp(fn, v, depth=0):
    """v, or the value assigned to the named temporary v is loaded from (`char *end = &buf->yy_ch_buf[n]; if (p <= end)`:
    one assignment, address never taken, not a parameter spill) - neutral diff m2P4"""
    if depth > 3 or not (isinstance(v, tuple) and v[0] == 'reg'): return v
    d = fn.def_of(v)
    if d is None or d.op != 'load' or not (isinstance(d.ops[0], tuple) and d.ops[0][0] == 'reg'): return v
    a_ = fn.def_of(d.ops[0])
    if a_ is None or a_.op != 'alloca' or str(a_.res).endswith('.addr'): return v
    tv = flow.named_temporary(fn, d)
    if tv is None or tv[0] != 'reg' or fn.def_of(tv) is None: return v
    return through_temp(fn, tv, depth + 1)

def r7(ctx, sc):
    """the decision to refill - the comparison of yy_c_buf_p with the end of the valid text that guards every call of
    yy_get_next_buffer in yylex and yyinput - reads the count from the scanner register yy_get_next_buffer maintains;
    the copy in the buffer object is only written back when buffers are switched and is stale after a refill that
    carried a partial token forward."""
    rep = ctx.rep; v = sc.v; n = 0
    for role in ('LEX', 'INPUT'):
        for fn in sc.fns(role):
            a = sc.fa(fn); cfg = sc.prog.cfg(fn)
            for call in sc.calls(fn, 'GNB'):
                n += 1
                key = 'C03.R7:%s:%s:refill-decision-reads-live-count' % (skel(v), norm(fn.name))
                tests = []
                for b in fn.blocks:
                    br = b.ins[-1]
                    if br.op != 'br' or not br.ops or b is call.blk or not cfg.dominates(b, call.blk): continue
                    d = fn.def_of(br.ops[0])
                    if d is None or d.op != 'icmp' or d.pred not in ('ule', 'ult', 'uge', 'ugt'): continue
                    for x, y in ((d.ops[0], d.ops[1]), (d.ops[1], d.ops[0])):
                        dx = fn.def_of(x)
                        if dx is None or dx.op != 'load' or cell_role(a.loc(dx.ops[0])) != 'CBUFP': continue
                        g = fn.def_of(through_temp(fn, y))
                        if g is None or g.op != 'getelementptr' or len(g.ops) != 2: continue
                        bd = fn.def_of(g.ops[0])
                        if bd is None or bd.op != 'load' or cell_role(a.loc(bd.ops[0])) != 'CHBUF': continue
                        # loads that feed the index, looking through temporaries (locals with their stores)
                        locs = []; work = [g.ops[1]]; seenl = set()
                        while work:
                            for l in flow.value_slice(fn, work.pop()):
                                if l.op != 'load': continue
                                ll = a.loc(l.ops[0])
                                if ll[0] == 'local':
                                    if ll[1] not in seenl:
                                        seenl.add(ll[1]); work += [st.ops[0] for st in a.local_stores(ll[1])]
                                else: locs.append(ll)
                        tests.append((br, [l for l in locs if cell_role(l) == 'NCHARS']))
                if not tests:
                    rep.fail('C03.R7', key, where(call), 'the call of yy_get_next_buffer in %s is not guarded by a comparison of yy_c_buf_p with &yy_ch_buf[count] [variant %s]' % (norm(fn.name), v.name), variant=v.describe())
                    continue
                br, cnt = tests[-1]
                if cnt and not any(saved_in_buffer(l) for l in cnt):
                    rep.ok('C03.R7', '%s %s: refill decision@%s reads the count register' % (v.name, fn.name, br.line))
                else:
                    rep.fail('C03.R7', key, where(br), '%s decides whether to refill (line %s) with %s: after a refill that carried a partial token forward the saved copy is stale, a NUL in the text is then taken for the end of the buffer (or the reverse) [variant %s]' % (
                        norm(fn.name), br.line, 'the copy of yy_n_chars saved in the buffer object' if cnt else 'something else than yy_n_chars', v.name), variant=v.describe())
    return n

# ---------------------------------------------------------------- R8

def read_count_local(sc, gnb):
    """(input call, local that holds the number of bytes requested) in yy_get_next_buffer"""
    a = sc.fa(gnb)
    for c in sc.calls(gnb, 'READ'):
        for arg in c.ops:
            d = gnb.def_of(flow.int_origin(gnb, arg))
            if d is not None and d.op == 'load' and d.ty is not None and d.ty.k == 'int':
                l = a.loc(d.ops[0])
                if l[0] == 'local': return c, l[1]
    return None, None

def r8(ctx, sc, gnb):
    """the growth decision of yy_get_next_buffer is tight: whenever control reaches the input call the number of bytes
    requested is > 0.  A request for 0 bytes returns 0, which the scanner takes for end of file: the token is cut and the
    rest of the input dropped.  Decided by running the function concretely from every assignment of the count local with
    the values -1, 0 (must not reach the input call unchanged) and 1, 2 (must reach it)."""
    rep = ctx.rep; v = sc.v
    call, N = read_count_local(sc, gnb)
    if call is None:
        vac(rep, v, 'C03.R8: yy_get_next_buffer does not call yyread with a count held in a local (user YY_INPUT / unusual back end)')
        return 0
    a = sc.fa(gnb)
    starts = [st for st in a.local_stores(N) if st.ops[0][0] != 'int']
    if not starts: rep.broken('%s: the count passed to yyread in yy_get_next_buffer is never computed' % v.name)
    key = 'C03.R8:%s:yy_get_next_buffer:reads-zero-bytes-when-full' % skel(v)
    bad = None; reached = set()
    for st in starts:
        for val in (-1, 0, 1, 2):
            hit = []
            def on(x, env, regs, hit=hit):
                if x is call:
                    hit.append(env.get(N)); return 'stop'
            r = simulate(sc, gnb, st, {N: val}, on_ins=on)
            if ('limit',) in r: rep.broken('%s: concrete evaluation of yy_get_next_buffer did not terminate within the step limit' % v.name)
            for h in hit:
                if h is not None and h <= 0 and bad is None: bad = (st, val, h)
                if h is not None and h > 0: reached.add(val)
    if bad:
        rep.fail('C03.R8', key, where(call), 'when the room left in the buffer is %d (count computed at line %s) yy_get_next_buffer neither grows the buffer nor refuses: it asks yyread for %d bytes, the 0 it gets back is taken for end of file and the rest of the input is dropped [variant %s]' % (
            bad[1], bad[0].line, bad[2], v.name), variant=v.describe(), replay_input='a token that reaches yy_buf_size - 1 bytes read from a FILE or pipe')
    elif not ({1, 2} <= reached):
        rep.fail('C03.R8', key.replace('reads-zero-bytes-when-full', 'never-reads-when-there-is-room'), where(call), 'yy_get_next_buffer does not reach the input call when 1 or 2 bytes of room are left [variant %s]' % v.name, variant=v.describe())
    else:
        rep.ok('C03.R8', '%s yy_get_next_buffer: yyread@%s is reached with the count %s only for counts > 0 (-1 and 0 grow or refuse)' % (v.name, call.line, N))
    return 1

# ---------------------------------------------------------------- driver

def anchors(ctx, sc):
    """(yylex, yy_get_next_buffer, returned constants, eof codes) or broken"""
    rep = ctx.rep; v = sc.v
    lex = sc.fn('LEX', having_call='GNB'); gnb = sc.fn('GNB')
    if lex is None or gnb is None:
        rep.broken('%s: yylex / yy_get_next_buffer not found' % v.name)
    consts, eof = eof_code(sc, lex, gnb)
    if len(consts) < 3 or len(eof) != 1:
        rep.broken('%s: cannot identify the status codes of yy_get_next_buffer (returns %s, end-of-file %s)' % (v.name, sorted(consts), sorted(eof)))
    return lex, gnb, consts, eof

def vac(rep, v, text):
    """record a vacuous instance once per reason, with the variants it applies to"""
    d = rep.__dict__.setdefault('_vac', {})
    d.setdefault(text, []).append(v.name)

def flush_vac(rep):
    for text, names in rep.__dict__.get('_vac', {}).items():
        rep.vacuous.append('%s [%d variants: %s%s]' % (text, len(names), ', '.join(names[:6]), ', ...' if len(names) > 6 else ''))

def count_guard(rep, cond, msg):
    """vacuity guard on an instance count.  A vanished instance is ANALYSIS-BROKEN (exit 2) only when the run has no
    violation to report: an edit that removes an anchored construct *and* is reported as a violation must end in exit 1."""
    if cond: return
    import common
    open_keys, _ = common.load_known(rep.prop)
    if any(v.key not in open_keys for v in rep.viol):
        rep.note('count guard not enforced because a violation is reported: ' + msg)
        return
    rep.broken(msg)

def saved_in_buffer(loc):
    """the location is a member of the buffer object (struct yy_buffer_state): the saved copy, not the scanner register"""
    return isinstance(loc, tuple) and bool(loc) and loc[0] == 'field' and 'buffer_state' in loc[1]

def usable(v):
    return v.ll is not None and not v.name.endswith('reject_undeclared')

def run(ctx):
    rep = ctx.rep
    vs = [v for v in ctx.variants() if usable(v)]
    rep.require(len(vs) >= 60, 'only %d scanner variants compiled to IR' % len(vs))
    tot = {'R1': 0, 'R2': 0, 'R3': 0, 'R4': 0, 'R5': 0, 'R6': 0, 'R7': 0, 'R8': 0}
    backends = set()
    for v in vs:
        sc = Scanner(v)
        lex, gnb, consts, eof = anchors(ctx, sc)
        backends.add(v.backend)
        tot['R1'] += r1(ctx, sc, lex, gnb, consts, eof)
        tot['R2'] += r2(ctx, sc, lex, gnb, consts, eof)
        tot['R3'] += r3(ctx, sc, gnb)
        tot['R5'] += r5(ctx, sc, consts, eof)
        tot['R6'] += r6(ctx, sc)
        tot['R7'] += r7(ctx, sc)
        tot['R8'] += r8(ctx, sc, gnb)
        k = r4(ctx, sc)
        if k == 0: vac(rep, v, 'C03.R4: no stdio getc loop (%s)' % ('C++ reads through std::istream in LexerInput' if v.backend == 'cxx' else 'the scanner uses read(2): %option read or -Cf/-CF'))
        tot['R4'] += k
    rep.require(backends == {'nr', 'r', 'cxx', 'c99', 'go'}, 'back ends analysed: %s' % sorted(backends))
    rep.setcount('variants_analysed', len(vs))
    for k, n in tot.items(): rep.setcount('instances_' + k, n)
    # vacuity guards: instances are counted here (rep.fail merges equal keys of different variants, so the
    # reporter's own count drops when one defect shows in many variants)
    count_guard(rep, tot['R1'] >= 2 * len(vs), 'C03.R1 matched %d instances, 2 per variant (%d) expected' % (tot['R1'], 2 * len(vs)))
    count_guard(rep, tot['R2'] >= 12 * len(vs), 'C03.R2 matched %d instances, at least 12 per variant expected' % tot['R2'])
    count_guard(rep, tot['R3'] >= 60, 'C03.R3 matched %d instances, one per non-REJECT variant expected' % tot['R3'])
    count_guard(rep, tot['R4'] >= 60, 'C03.R4 matched %d instances, one per C variant with stdio input expected' % tot['R4'])
    count_guard(rep, tot['R5'] >= len(vs) - 8, 'C03.R5 matched %d instances, one per variant with yyinput expected' % tot['R5'])
    rep.floor('C03.R5', 1, 'the refill call in yyinput')
    count_guard(rep, tot['R6'] >= 3 * len(vs), 'C03.R6 matched %d instances, 3 per variant (yy_init_buffer) expected' % tot['R6'])
    count_guard(rep, tot['R7'] >= 2 * len(vs) - 12, 'C03.R7 matched %d instances, one per refill call in yylex and yyinput expected' % tot['R7'])
    rep.floor('C03.R6', 1, 'yy_init_buffer'); rep.floor('C03.R7', 1, 'refill decisions')
    count_guard(rep, tot['R8'] >= len(vs) - 6, 'C03.R8 matched %d instances, one per variant expected' % tot['R8'])
    rep.floor('C03.R8', 1, 'growth decision of yy_get_next_buffer')
    rep.floor('C03.R1', 1, 'two refill arms (continue-scan, last-match) in yylex of every variant')
    rep.floor('C03.R2', 1, 'yytext_ptr re-derivation, reallocs x (locals + 2 cells), refill arms of yylex and yyinput x (yy_c_buf_p + locals)')
    rep.floor('C03.R3', 1, 'one growth arm in yy_get_next_buffer of every non-REJECT variant')
    rep.floor('C03.R4', 1, 'one getc loop in yyread of every C variant without %option read')
    rep.undecided += ['independence of the token stream from the read schedule (quantifies over schedules)',
                      'no over-read beyond what the DFA needs (value question: the yy_base[..] != YY_JAMBASE loop test)',
                      'staleness of yy_last_accepting_cpos / yy_full_match after a refill (re-established by the re-scan in yy_get_previous_state: value-level)',
                      'the end-of-file arm of the refill switch (continues through the user\'s yywrap(); joins are not path-insensitive decidable)']
    rep.assumptions += ['clang -O0 IR of the instantiated skeleton is a faithful rendering of the generated C/C++ source',
                        'a callee that (transitively) stores yy_c_buf_p re-establishes it (yyrestart, yy_load_buffer_state)']
    flush_vac(rep)
    import macro_hygiene
    macro_hygiene.check(ctx, 'C03.R9', {'yy_set_interactive'}, ['yy_set_interactive'])
    rep.floor('C03.R9', 3, 'yy_set_interactive() in the nr, r and C++ instantiation of the cpp skeleton')
    return rep.finish('other',
        'Path rules on LLVM IR of %d instantiated scanner variants (nr, r, C++, c99, go; all table modes): must-pass-through of '
        'yy_get_previous_state() on the refill arms of yylex; staleness analysis of pointers into the buffer (derived by taint from '
        'yy_c_buf_p/yytext_ptr/yy_ch_buf, not by name) after yy_get_next_buffer/yyunput_r/yyrealloc; control dependence of buffer '
        'growth; exit edges of the interactive getc loop.' % len(vs))
