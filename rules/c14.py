"""C14 - allocation and read failures in the scanner are reported, never absorbed.

R1  every yyalloc/yyrealloc result is compared with null before any use; the null edge ends in the
    fatal hook (a no-return function) or in an error return.
R2  yylex_init / yylex_init_extra: null parameter -> errno=EINVAL, non-zero; allocation failure ->
    errno=ENOMEM, non-zero; neither path reaches yy_init_globals.
R3  yyread: read(2)/fread(3) failures are retried on EINTR and otherwise reach the fatal hook; the
    getc loop's EOF&&ferror edge reaches the fatal hook.
R4  tables loader: every yytbl_read*/fread/yytbl_* result is tested and the failure edge returns non-zero.
"""
import os, re
import ir, flow, variants
from common import where, fwhere

ALLOCS = ('yyalloc', 'yyrealloc')
EINVAL, ENOMEM, EINTR = 22, 12, 4

def skel(v):
    return {'nr': 'cpp-flex.skl', 'r': 'cpp-flex.skl', 'cxx': 'cpp-flex.skl', 'c99': 'c99-flex.skl', 'go': 'go-flex.skl'}[v.backend]

def norm(name):
    """identifier with the variant's prefix mapped back to yy"""
    return re.sub(r'\b(foo|bar)(?=[a-z_])', 'yy', name)

def alloc_names(mod):
    """allocation entry points of a variant: yyalloc/yyrealloc under the variant's prefix"""
    out = set()
    for n in list(mod.functions) + list(mod.declares):
        if re.fullmatch(r'(yy|foo|bar)(alloc|realloc)', n): out.add(n)
    return out

def r1(ctx, v, prog, mod):
    rep = ctx.rep
    names = alloc_names(mod)
    sites = 0
    for fn in mod.functions.values():
        for call in fn.ins:
            if call.op not in ('call', 'invoke') or call.callee not in names: continue
            if fn.name in names: continue
            sites += 1
            ac = flow.AllocCheck(prog, fn, call, allow_callees=()).run()
            key = 'C14.R1:%s:%s:%s' % (skel(v), norm(fn.name), norm(_site_name(ac, call)))
            if ac.problems:
                kind, ins, detail = ac.problems[0]
                wit = ctx_witness(prog, fn, call, ins)
                rep.fail('C14.R1', key, where(ins), '%s result of %s: %s [variant %s]' % (call.callee, kind, detail, v.name), witness=wit, variant=v.describe())
            elif not ac.tests:
                rep.fail('C14.R1', key, where(call), '%s result is never compared with null [variant %s]' % (call.callee, v.name), variant=v.describe())
            else:
                t = ac.tests[0]
                fe = ac.fatal_edges[0] if ac.fatal_edges else None
                rep.ok('C14.R1', '%s %s:%s %s tested@%s %s' % (v.name, fn.name, call.line, call.callee, t.line,
                                                              ('fatal@%s' % fe.line) if fe is not None else 'error-return'))
    return sites

def _site_name(ac, call):
    """stable name for an allocation site: what the result is stored to"""
    fn = call.fn
    res = ir.Resolver(fn)
    aliases = {call.res}
    for x in list(call.blk.ins[call.idx + 1:]) :
        if x.op == 'bitcast' and x.ops[0][0] == 'reg' and x.ops[0][1] in aliases: aliases.add(x.res)
        if x.op == 'store' and x.ops[0][0] == 'reg' and x.ops[0][1] in aliases:
            return '%s->%s' % (call.callee, ir.loc_str(res.loc(x.ops[1])).replace(' ', ''))
    return call.callee

def ctx_witness(prog, fn, a, b):
    c = prog.cfg(fn)
    p = c.path(a, lambda x: x is b)
    if not p: return None
    return ['%s:%s' % (x.blk.name, x.line) for x in p]

# ---------------------------------------------------------------- R2

def errno_stores(fn):
    """stores of integer constants through the pointer returned by __errno_location"""
    out = []
    for x in fn.ins:
        if x.op == 'store' and x.ops[0][0] == 'int':
            d = fn.def_of(x.ops[1])
            if d is not None and d.op == 'call' and d.callee == '__errno_location':
                out.append((x, x.ops[0][1]))
    return out

def r2(ctx, v, prog, mod):
    rep = ctx.rep
    n = 0
    for fname in ('yylex_init', 'yylex_init_extra', 'foolex_init', 'foolex_init_extra'):
        fn = mod.functions.get(fname)
        if fn is None: continue
        n += 1
        cfg = prog.cfg(fn)
        key0 = 'C14.R2:%s:%s' % (skel(v), norm(fname))
        es = errno_stores(fn)
        param = fn.params[-1][1]
        # (a) null-parameter test: a branch on null of a load of the parameter slot, before the allocation
        alloc = [c for c in fn.ins if c.op == 'call' and c.callee in alloc_names(mod)]
        if not alloc:
            rep.fail('C14.R2', key0 + ':alloc', fwhere(fn), 'no allocation call found in %s' % fname, variant=v.describe()); continue
        alloc = alloc[0]
        res = ir.Resolver(fn)
        null_tests = []
        for b in fn.blocks:
            br = b.ins[-1]
            bn = flow.branch_on_null(fn, br) if br.op == 'br' else None
            if bn is None: continue
            pv = flow.strip_casts(fn, bn[0])
            d = fn.def_of(pv)
            if d is None or d.op != 'load': continue
            l = res.loc(d.ops[0])
            null_tests.append((br, bn, l))
        init_calls = [c for c in fn.ins if c.op == 'call' and c.callee and c.callee.endswith('_init_globals')]
        def check_edge(label, br, bn, want, tag):
            nb = fn.bmap[bn[1]]
            reach = cfg.reach_from_block(nb)
            st = [x for x, val in es if x in reach and val == want and x.blk is nb]
            rets = [x for x in reach if x.op == 'ret']
            bad_init = [c for c in init_calls if c in reach and not cfg.dominates(nb, c.blk)] if False else [c for c in init_calls if c.blk is nb]
            # the null block must store errno=want and store a non-zero constant to retval, then leave
            rv = [x for x in nb.ins if x.op == 'store' and x.ops[1] == ('reg', 'retval') and x.ops[0][0] == 'int']
            if not st:
                rep.fail('C14.R2', key0 + ':' + tag + ':errno', where(br), '%s: the %s edge does not store errno=%d [variant %s]' % (fname, label, want, v.name), variant=v.describe())
            elif not rv or rv[-1].ops[0][1] == 0:
                rep.fail('C14.R2', key0 + ':' + tag + ':status', where(br), '%s: the %s edge does not return a non-zero status [variant %s]' % (fname, label, v.name), variant=v.describe())
            elif bad_init or any(c.op == 'call' and c.callee in alloc_names(mod) for c in nb.ins):
                rep.fail('C14.R2', key0 + ':' + tag + ':continues', where(br), '%s: the %s edge goes on to allocate/initialise [variant %s]' % (fname, label, v.name), variant=v.describe())
            else:
                # the block must leave directly to the return block without passing the init call
                after = cfg.reach_from_block(nb)
                if any(c in after for c in init_calls):
                    rep.fail('C14.R2', key0 + ':' + tag + ':continues', where(br), '%s: the %s edge reaches yy_init_globals [variant %s]' % (fname, label, v.name), variant=v.describe())
                else:
                    rep.ok('C14.R2', '%s %s %s edge: errno=%d, status=%d, no init' % (v.name, fname, label, want, rv[-1].ops[0][1]))
        pt = [(br, bn) for br, bn, l in null_tests if l == ('local', param + '.addr') and cfg.ins_dominates(br, alloc)]
        if not pt:
            rep.fail('C14.R2', key0 + ':param-test', fwhere(fn), '%s does not test its scanner-pointer parameter for null before allocating [variant %s]' % (fname, v.name), variant=v.describe())
        else:
            check_edge('null-parameter', pt[0][0], pt[0][1], EINVAL, 'param')
        at = [(br, bn) for br, bn, l in null_tests if l == ('deref', ('local', param + '.addr')) and cfg.ins_dominates(alloc, br)]
        if not at:
            rep.fail('C14.R2', key0 + ':alloc-test', fwhere(fn), '%s does not test the allocated scanner for null [variant %s]' % (fname, v.name), variant=v.describe())
        else:
            check_edge('allocation-failure', at[0][0], at[0][1], ENOMEM, 'alloc')
    return n

# ---------------------------------------------------------------- R3

def r3(ctx, v, prog, mod):
    """yyread error discipline"""
    rep = ctx.rep
    fn = None
    for cand in ('yyread', 'fooread'):
        if cand in mod.functions: fn = mod.functions[cand]
    n = 0
    if v.backend == 'cxx':
        # yyFlexLexer::yyread: the result of the (virtual) LexerInput call is compared with 0 and the negative edge is fatal
        fx = [f for n, f in mod.functions.items() if re.search(r'FlexLexer6yyread', n)]
        if not fx: return 0
        fn = fx[0]; cfg = prog.cfg(fn)
        calls = [c for c in fn.ins if c.op in ('call', 'invoke') and not isinstance(c.callee, str)]
        key = 'C14.R3:cpp-flex.skl:yyFlexLexer::yyread:LexerInput'
        if not calls:
            rep.fail('C14.R3', key + ':missing', fwhere(fn), 'yyFlexLexer::yyread no longer calls the virtual LexerInput [variant %s]' % v.name, variant=v.describe()); return 1
        c = calls[0]; ok = False
        for x in cfg.reach(c):
            if x.op == 'icmp' and x.pred in ('slt', 'sle', 'sgt', 'sge') and (('int', 0) in x.ops):
                br = x.blk.ins[-1]
                if br.op != 'br' or not br.ops or br.ops[0] != ('reg', x.res): continue
                # which side is "negative"?
                neg_true = (x.pred in ('slt', 'sle') and x.ops[1] == ('int', 0)) or (x.pred in ('sgt', 'sge') and x.ops[0] == ('int', 0))
                t = br.targets[0] if neg_true else br.targets[1]
                if not any(y.op == 'ret' for y in cfg.reach_from_block(fn.bmap[t])): ok = True
        if ok: rep.ok('C14.R3', '%s yyFlexLexer::yyread: LexerInput() < 0 edge is fatal' % v.name)
        else: rep.fail('C14.R3', key + ':negative-not-fatal', where(c), 'a negative result of LexerInput() does not reach the fatal hook in yyFlexLexer::yyread [variant %s]' % v.name, variant=v.describe())
        return 1
    if fn is None: return 0
    cfg = prog.cfg(fn)
    nr = prog.noreturn()
    key0 = 'C14.R3:%s:yyread' % skel(v)
    fatal_calls = [c for c in fn.ins if c.op == 'call' and isinstance(c.callee, str) and c.callee in nr]
    for c in fn.ins:
        if c.op != 'call' or c.callee not in ('read', 'fread', 'getc', '_IO_getc', 'fgetc'): continue
        n += 1
        kind = c.callee
        key = key0 + ':' + kind
        if kind in ('read', 'fread'):
            # (1) some errno comparison with EINTR is reachable from the call, (2) its equal edge leads back to the call,
            # (3) its unequal edge reaches only the fatal hook
            cmps = []
            for x in cfg.reach(c):
                if x.op == 'icmp' and x.pred in ('eq', 'ne') and ('int', EINTR) in x.ops:
                    o = x.ops[0] if x.ops[1] == ('int', EINTR) else x.ops[1]
                    d = fn.def_of(o)
                    if d is not None and d.op == 'load':
                        dd = fn.def_of(d.ops[0])
                        if dd is not None and dd.op == 'call' and dd.callee == '__errno_location': cmps.append(x)
            if not cmps:
                rep.fail('C14.R3', key + ':eintr', where(c), 'no errno==EINTR test follows the %s call in yyread [variant %s]' % (kind, v.name), variant=v.describe()); continue
            ok = False; why = ''
            for x in cmps:
                br = x.blk.ins[-1]
                if br.op != 'br' or not br.ops or br.ops[0] != ('reg', x.res): continue
                eq_t, ne_t = (br.targets[0], br.targets[1]) if x.pred == 'eq' else (br.targets[1], br.targets[0])
                retry = c in cfg.reach_from_block(fn.bmap[eq_t])
                other = cfg.reach_from_block(fn.bmap[ne_t], avoid=[c])
                # the not-EINTR edge must be fatal: no ret reachable without passing the call again
                fatal = not any(y.op == 'ret' for y in other) and any(f.blk in {y.blk for y in other} or f in other for f in fatal_calls)
                if not fatal:
                    # no-return calls cut the block, so `other` excludes instructions after them; check for fatal inside
                    fatal = not any(y.op == 'ret' for y in other)
                cleared = True
                if kind == 'fread':
                    # the stdio error flag is sticky: the retry edge must pass clearerr() before the call is made again,
                    # otherwise the loop's own ferror() test turns the next end of file into a read error
                    clr = [y for y in fn.ins if y.op == 'call' and y.callee == 'clearerr']
                    cleared = bool(clr) and c not in cfg.reach_from_block(fn.bmap[eq_t], avoid=clr)
                if retry and fatal and cleared: ok = True; break
                why = 'retry=%s fatal=%s clearerr-before-retry=%s' % (retry, fatal, cleared)
            if ok and kind == 'fread':
                # (4) the call is re-executed only when it transferred nothing: a retry after a short count would read over the
                # bytes already stored at buf.  Every way back to the call must leave a test `result == 0` by its zero edge.
                gate = _zero_gate(fn, cfg, c)
                if gate is not None:
                    rep.fail('C14.R3', key + ':retry-not-gated-by-zero-bytes', where(c), 'the fread call in yyread can be executed again %s: bytes that a short read had already '
                             'delivered are overwritten by the retry and lost without a message [variant %s]' % (gate, v.name), variant=v.describe()); continue
            if ok: rep.ok('C14.R3', '%s yyread %s@%s: EINTR retried, other errors fatal' % (v.name, kind, c.line))
            else: rep.fail('C14.R3', key + ':discipline', where(c), 'error handling after %s in yyread: %s [variant %s]' % (kind, why or 'no errno==EINTR test whose equal edge retries the call (after clearerr) and whose other edge is fatal', v.name), variant=v.describe())
        else:
            # getc loop: a call to ferror reachable from the getc whose true edge is fatal
            fe = [x for x in cfg.reach(c) if x.op == 'call' and x.callee == 'ferror']
            # the stream whose error flag is tested must be the one that was read
            res_ = ir.Resolver(fn)
            def stream_of(call):
                a = call.ops[-1] if call.callee in ('getc', '_IO_getc', 'fgetc') else call.ops[0]
                d = fn.def_of(a) if a[0] == 'reg' else None
                return ir.loc_class(res_.loc(d.ops[0])) if d is not None and d.op == 'load' else None
            rd = stream_of(c)
            other = [x for x in fe if stream_of(x) is not None and rd is not None and stream_of(x) != rd]
            if other:
                rep.fail('C14.R3', key + ':ferror-on-another-stream', where(other[0]), 'yyread reads with %s from %s but tests ferror() of %s: a read error on the input is taken for a clean end of file [variant %s]' % (
                    kind, rd[-1] if isinstance(rd, tuple) else rd, stream_of(other[0])[-1], v.name), variant=v.describe())
                continue
            good = False
            for x in fe:
                br = x.blk.ins[-1]
                if br.op != 'br' or not br.ops: continue
                # true edge of (ferror != 0)
                d = fn.def_of(br.ops[0])
                if d is None or d.op != 'icmp': continue
                t = br.targets[0] if d.pred == 'ne' else br.targets[1]
                sub = cfg.reach_from_block(fn.bmap[t], avoid=[c])
                if not any(y.op == 'ret' for y in sub): good = True
            if good: rep.ok('C14.R3', '%s yyread getc@%s: EOF&&ferror edge is fatal' % (v.name, c.line))
            else: rep.fail('C14.R3', key + ':ferror', where(c), 'getc loop in yyread: no ferror test whose true edge is fatal [variant %s]' % v.name, variant=v.describe())
    return n

def _derives_from(fn, v, call, depth=0):
    """v is the result of `call`, possibly through integer casts or one store/load round trip of a local"""
    if v == ('reg', call.res): return True
    if v[0] != 'reg' or depth > 4: return False
    d = fn.def_of(v)
    if d is None: return False
    if d.op in ('trunc', 'sext', 'zext'): return _derives_from(fn, d.ops[0], call, depth + 1)
    if d.op == 'load':
        sts = [x for x in fn.ins if x.op == 'store' and x.ops[1] == d.ops[0]]
        return bool(sts) and all(_derives_from(fn, x.ops[0], call, depth + 1) for x in sts)
    return False

def _zero_gate(fn, cfg, c):
    """None if every path from call c back to c leaves some test of c's result against 0 by its zero edge; otherwise a
    description of the ungated way back."""
    tests = []
    for x in cfg.reach(c):
        if x.op != 'icmp' or ('int', 0) not in x.ops: continue
        o = x.ops[0] if x.ops[1] == ('int', 0) else x.ops[1]
        if not _derives_from(fn, o, c): continue
        br = x.blk.ins[-1]
        if br.op != 'br' or not br.ops or br.ops[0] != ('reg', x.res) or len(br.targets) != 2: continue
        if x.pred == 'eq': zero_t, non_t = br.targets
        elif x.pred == 'ne': non_t, zero_t = br.targets
        elif x.pred in ('sle', 'ule') and x.ops[1] == ('int', 0): zero_t, non_t = br.targets
        elif x.pred in ('sgt', 'ugt') and x.ops[1] == ('int', 0): non_t, zero_t = br.targets
        else: continue
        tests.append((x, fn.bmap[zero_t], fn.bmap[non_t]))
    if not tests: return 'without any test of its result against 0'
    # paths that leave a test by its non-zero edge must not come back to the call.  The edge into a block whose own branch
    # condition is a phi with a constant for that edge (the IR of `a && b`) continues only along the side the constant selects.
    def after_edge(pred, blk):
        t = blk.ins[-1]
        if t.op == 'br' and t.ops and len(t.targets) == 2:
            d = fn.def_of(t.ops[0])
            if d is not None and d.op == 'phi' and d.blk is blk:
                for val, lab in zip(d.ops, d.cases):
                    if fn.bmap.get(lab) is pred and val in (('int', 0), ('int', 1), ('bool', False), ('bool', True), ('false',), ('true',)):
                        truth = val in (('int', 1), ('bool', True), ('true',))
                        return [fn.bmap[t.targets[0] if truth else t.targets[1]]]
        return None
    blocked = {(x.blk, non) for x, z, non in tests}
    for x, z, non in tests:
        nxt = after_edge(x.blk, non)
        starts = nxt if nxt is not None else [non]
        for b in starts:
            if c in cfg.reach_from_block(b, edge_filter=lambda p_, t_: (p_, t_) not in blocked) or c.blk is b:
                return 'after a read that returned a non-zero count (test at line %s)' % x.line
    # and no way back that avoids every test
    if c in cfg.reach(c, avoid=[x for x, _, _ in tests]): return 'on a path that does not test its result against 0'
    return None


# ---------------------------------------------------------------- R4

LOADER_CALLEES = ('yytbl_read8', 'yytbl_read16', 'yytbl_read32', 'yytbl_hdr_read', 'yytbl_data_load', 'yytbl_fload', 'fread')

def r4(ctx, v, prog, mod):
    rep = ctx.rep
    n = 0
    for fn in mod.functions.values():
        base = re.sub(r'^(foo|bar)', 'yy', fn.name)
        if base not in ('yytbl_hdr_read', 'yytbl_data_load', 'yytbl_fload', 'yytables_fload', 'yytbl_read8', 'yytbl_read16', 'yytbl_read32'): continue
        cfg = prog.cfg(fn)
        for c in fn.ins:
            if c.op != 'call' or not isinstance(c.callee, str): continue
            cb = re.sub(r'^(foo|bar)', 'yy', c.callee)
            if cb not in LOADER_CALLEES: continue
            n += 1
            key = 'C14.R4:%s:%s:%s#%d' % (skel(v), base, cb, sum(1 for y in fn.ins if y.op == 'call' and y.callee == c.callee and (y.blk.fn.blocks.index(y.blk), y.idx) < (c.blk.fn.blocks.index(c.blk), c.idx)))
            # result must feed an icmp that controls a branch (possibly via ||), whose failure edge returns non-zero
            tested = result_controls_branch(fn, c)
            if c.ty is not None and c.ty.k == 'void':
                continue
            if not tested:
                rep.fail('C14.R4', key, where(c), 'result of %s is not tested in %s [variant %s]' % (c.callee, fn.name, v.name), variant=v.describe())
            else:
                # polarity: every failure value the callee can return must take the other edge than success (0) does
                fv = failure_values(mod, c.callee)
                wrong = None
                if tested.op == 'icmp' and fv:
                    k = [o for o in tested.ops if o[0] == 'int']
                    if len(k) == 1 and tested.ops[1] == k[0]:
                        def holds(val, pred=tested.pred, kk=k[0][1]):
                            return {'eq': val == kk, 'ne': val != kk, 'slt': val < kk, 'sle': val <= kk, 'sgt': val > kk, 'sge': val >= kk,
                                    'ult': (val % 2**32) < (kk % 2**32), 'ule': (val % 2**32) <= (kk % 2**32), 'ugt': (val % 2**32) > (kk % 2**32), 'uge': (val % 2**32) >= (kk % 2**32)}.get(pred)
                        ok0 = holds(0)
                        for val in sorted(fv):
                            if holds(val) is not None and holds(val) == ok0: wrong = val
                if wrong is not None:
                    rep.fail('C14.R4', key + ':failure-value-taken-for-success', where(tested), '%s tests the result of %s with `%s %s`: the failure value %d that %s returns takes the same edge as success (0), '
                             'so a failed load is reported as success [variant %s]' % (fn.name, c.callee, tested.pred, [o for o in tested.ops if o[0] == 'int'][0][1], wrong, c.callee, v.name), variant=v.describe())
                else:
                    rep.ok('C14.R4', '%s %s: %s@%s result tested@%s%s' % (v.name, fn.name, c.callee, c.line, tested.line, (' (failure values %s take the other edge than 0)' % sorted(fv)) if fv and tested.op == 'icmp' else ''))
    return n

def failure_values(mod, callee):
    """non-zero integer constants the (scanner-local) callee can return: stores of constants to its return slot / ret constants"""
    f = mod.functions.get(callee)
    if f is None or not f.blocks: return set()
    out = set()
    slots = set(); work = []
    for x in f.ins:
        if x.op == 'ret' and x.ops:
            if x.ops[0][0] == 'int': out.add(x.ops[0][1])
            else: work.append(x.ops[0])
    depth = 0
    while work and depth < 6:
        depth += 1; nxt = []
        for v in work:
            d = f.def_of(v) if v[0] == 'reg' else None
            if d is None: continue
            if d.op == 'load' and d.ops[0][0] == 'reg' and d.ops[0] not in slots:
                slots.add(d.ops[0])
                for x in f.ins:
                    if x.op == 'store' and x.ops[1] == d.ops[0]:
                        if x.ops[0][0] == 'int': out.add(x.ops[0][1])
                        else: nxt.append(x.ops[0])
            elif d.op in ('sext', 'zext', 'trunc', 'phi', 'select'):
                nxt += [o for o in d.ops if o[0] in ('reg', 'int')]
        for v in nxt:
            if v[0] == 'int': out.add(v[1])
        work = [v for v in nxt if v[0] == 'reg']
    out = {(v - 2**32) if v >= 2**31 else v for v in out}
    out.discard(0)
    return out

def result_controls_branch(fn, call):
    """the call result (through casts / stores to a local and reloads) reaches an icmp whose result controls a br"""
    uses = fn.uses()
    work = [call.res]; seen = set()
    locals_ = set()
    while work:
        r = work.pop()
        if r in seen or r is None: continue
        seen.add(r)
        for u in uses.get(r, []):
            if u.op in ('icmp',):
                for w in uses.get(u.res, []):
                    if w.op == 'br': return u
                    if w.op in ('zext', 'xor', 'select', 'phi'): work.append(w.res)
                work.append(u.res)
            elif u.op in ('sext', 'zext', 'trunc', 'bitcast', 'phi', 'select', 'xor', 'and', 'or'):
                work.append(u.res)
            elif u.op == 'br':
                return u
            elif u.op == 'store' and u.ops[0] == ('reg', r):
                d = fn.def_of(u.ops[1])
                if d is not None and d.op == 'alloca':
                    for x in fn.ins:
                        if x.op == 'load' and x.ops[0] == u.ops[1]: work.append(x.res)
    return None

# ---------------------------------------------------------------- driver

def run(ctx):
    rep = ctx.rep
    vs = ctx.variants()
    rep.require(len(vs) >= 60, 'only %d scanner variants compiled to IR' % len(vs))
    tot = {'R1': 0, 'R2': 0, 'R3': 0, 'R4': 0}
    fnc = 0
    for v in vs:
        mod = variants.module(v); prog = variants.program(v)
        fnc += len(mod.functions)
        tot['R1'] += r1(ctx, v, prog, mod)
        tot['R2'] += r2(ctx, v, prog, mod)
        tot['R3'] += r3(ctx, v, prog, mod)
        tot['R4'] += r4(ctx, v, prog, mod)
    rep.setcount('variants_analysed', len(vs))
    rep.setcount('scanner_functions_analysed', fnc)
    rep.setcount('allocation_call_sites', tot['R1'])
    rep.setcount('init_functions', tot['R2'])
    rep.setcount('read_call_sites', tot['R3'])
    rep.setcount('loader_call_sites', tot['R4'])
    rep.floor('C14.R1', 600, '>=8 allocation sites in each of >=75 variants')
    rep.floor('C14.R2', 30, 'two edges in yylex_init and yylex_init_extra of every reentrant/c99/go variant')
    rep.floor('C14.R3', 100, 'read/fread/getc sites in yyread of every C variant')
    rep.floor('C14.R4', 20, 'loader call sites in the tables-file variants')
    rep.undecided += ['that the message printed by the fatal hook is the documented one', 'behaviour of user-supplied yyalloc/yyread replacements',
                      'no loss or duplication of input across an EINTR retry (value-level)']
    rep.assumptions += ['clang -O0 IR of the instantiated skeleton is a faithful rendering of the generated C/C++ source',
                        'C++ operator new throws instead of returning null (not checked)',
                        'probe specifications turn on every skeleton arm that contains an allocation (measured by the variant list)']
    return rep.finish('other',
        'Static must-test analysis on LLVM IR of %d instantiated scanner variants (all back ends): for every yyalloc/yyrealloc call, a '
        'path-sensitive forward walk proves the result is compared with null before any dereference, call argument use or return, and '
        'that the null edge ends in a no-return fatal hook or an error return; plus the errno/status discipline of yylex_init*, the '
        'EINTR/ferror discipline of yyread, and result-tested discipline of the tables loader.' % len(vs))
