"""Per-back-end identifier map for instantiated scanner variants (shared helper for rule modules).

Canonical names are the cpp-skeleton names (`yy_start`, `yy_c_buf_p`, `yy_buf_pos`, ...).  `Scanner(v)` wraps one
variant and answers, independent of back end, prefix (-P foo) and C++ name mangling:

    sc.fn('yy_push_state')          -> ir.Function or None (first overload)
    sc.fns('yyrestart')             -> all overloads (C++ has yyrestart(istream&) and yyrestart(istream*))
    sc.canon(fn_or_name)            -> canonical function name ('yylex', 'ctor_common', 'yyFlexLexer::ctor', ...)
    sc.callee(ins)                  -> canonical callee of a call (direct; C++ virtual calls through the class vtable)
    sc.is_var(loc, 'yy_start')      -> Resolver location `loc` is that scanner register (global in nr, yyguts_t field
                                       in r/c99/go, class member in cxx)
    sc.is_buf(loc, 'yy_buf_pos')    -> `loc` is that field of struct yy_buffer_state
    sc.slot(loc)                    -> `loc` is an element of the buffer stack array (yy_buffer_stack[...])
    sc.elem_of(loc, 'yy_start_stack') -> `loc` is an element of the array the scanner register points to

Nothing here looks at local-variable names, line numbers or source text.
"""
import re
import ir, variants

SKEL = {'nr': 'cpp-flex.skl', 'r': 'cpp-flex.skl', 'cxx': 'cpp-flex.skl', 'c99': 'c99-flex.skl', 'go': 'go-flex.skl'}

# scanner registers: canonical -> go spelling (nr/r/cxx/c99 keep the canonical name, r/c99 sometimes with `_r`)
GO_VARS = {
    'yy_start': 'yyStart', 'yy_start_stack': 'yyStartStack', 'yy_start_stack_ptr': 'yyStartStackOffset',
    'yy_start_stack_depth': 'yyStartStackDepth', 'yy_buffer_stack': 'yyBufferStack',
    'yy_buffer_stack_top': 'yyBufferStackTop', 'yy_buffer_stack_max': 'yyBufferStackMax',
    'yy_did_buffer_switch_on_eof': 'yyDidBufferSwitchOnEof', 'yy_c_buf_p': 'yyCBufP', 'yy_hold_char': 'yyHoldChar',
    'yy_n_chars': 'yyNChars', 'yy_init': 'yyInit', 'yytext': 'yytext', 'yyleng': 'yyleng', 'yyin': 'yyin',
    'yyout': 'yyout', 'yy_more_len': 'yyMoreLen', 'yy_more_flag': 'yyMoreFlag', 'yy_state_buf': 'yyStateBuf',
    'yy_state_ptr': 'yyStatePtr', 'yy_state_buf_max': 'yyStateBufMax',
}
# fields of struct yy_buffer_state: canonical -> (c99 spelling, go spelling) where they differ from cpp
BUF_FIELDS = {
    'yy_input_file': ('yy_input_file', 'yyInputFile'), 'yy_ch_buf': ('yy_ch_buf', 'yyChBuf'),
    'yy_buf_pos': ('yy_buf_pos', 'yyBufPos'), 'yy_buf_size': ('yy_buf_size', 'yyInputBufSize'),
    'yy_n_chars': ('yy_n_chars', 'yyNChars'), 'yy_is_our_buffer': ('yy_is_our_buffer', 'yyIsOurBuffer'),
    'yy_is_interactive': ('yy_is_interactive', 'yyIsInteractive'), 'yyatbol': ('yyatbol_flag', 'yyatbolFlag'),
    'yy_fill_buffer': ('yy_fill_buffer', 'yyFillBuffer'), 'yy_buffer_status': ('yy_buffer_status', 'yyBufferStatus'),
    'yy_bs_lineno': ('bs_yylineno', 'bs_yylineno'), 'yy_bs_column': ('bs_yycolumn', 'bs_yycolumn'),
}
# functions: go spelling -> canonical (only those that differ)
GO_FUNCS = {'yyGetPreviousState': 'yy_get_previous_state', 'yyTryNULtrans': 'yy_try_NUL_trans',
            'yyDoBeforeAction': 'yy_do_before_action', 'yyLessLineno': 'yy_less_lineno',
            'yyLinenoRewindTo': 'yy_lineno_rewind_to'}

_PFX = re.compile(r'^(foo|bar)(?=[a-z_])')

def unprefix(name):
    """-P foo / -P bar renames the public yy* entry points; map them back"""
    return _PFX.sub('yy', name)

def demangle(name):
    """Itanium-mangled member or free function -> (class or None, base name).  Enough for the scanner classes:
    _ZN11yyFlexLexer5yylexEv -> ('yyFlexLexer','yylex'); _ZN11yyFlexLexerC2EPSiPSo -> ('yyFlexLexer','<ctor>');
    _Z7yyallocm -> (None,'yyalloc').  Anything else -> (None, name)."""
    if not name.startswith('_Z'): return (None, name)
    p = 2; parts = []
    nested = name.startswith('_ZN')
    if nested: p = 3
    while p < len(name) and name[p].isdigit():
        q = p
        while name[q].isdigit(): q += 1
        n = int(name[p:q]); parts.append(name[q:q + n]); p = q + n
        if not nested: break
    if not parts: return (None, name)
    if nested:
        rest = name[p:]
        if rest[:2] in ('C1', 'C2', 'C3'): return (parts[-1], '<ctor>')
        if rest[:2] in ('D0', 'D1', 'D2'): return (parts[-1], '<dtor>')
        if len(parts) >= 2: return (parts[-2], parts[-1])
        return (None, parts[-1])
    return (None, parts[0])

class Scanner:
    def __init__(s, v):
        s.v = v; s.backend = v.backend; s.skel = SKEL[v.backend]
        s.mod = variants.module(v); s.prog = variants.program(v)
        s._byname = {}
        for f in s.mod.functions.values():
            s._byname.setdefault(s.canon(f.name), []).append(f)
        s._vt = None

    # ---- functions
    def canon(s, f):
        name = f if isinstance(f, str) else f.name
        if s.backend == 'cxx':
            cls, base = demangle(name)
            if cls is not None:
                cls = re.sub(r'^(foo|bar)(?=FlexLexer)', 'yy', cls)
                if base in ('<ctor>', '<dtor>'): return '%s::%s' % (cls, base.strip('<>'))
                return unprefix(base)
            return unprefix(base)
        if s.backend == 'go' and name in GO_FUNCS: return GO_FUNCS[name]
        return unprefix(name)

    def fns(s, canon):
        return list(s._byname.get(canon, []))

    def fn(s, canon):
        l = s._byname.get(canon)
        return l[0] if l else None

    def vtable(s):
        """slot index -> function symbol of the scanner class's vtable (C++ only)"""
        if s._vt is None:
            s._vt = []
            for g, gv in s.mod.globals.items():
                if re.fullmatch(r'_ZTV\d+(yy|foo|bar)FlexLexer', g):
                    # entries in order of appearance inside the initialiser
                    body = gv.text[gv.text.index('['):]
                    syms = []
                    for m in re.finditer(r'i8\* (null|bitcast \((?:[^()]|\([^()]*\))*\* @([\w.$]+) to i8\*\))', body):
                        syms.append(m.group(2))
                    s._vt = syms[2:]          # skip offset-to-top and RTTI
        return s._vt

    def callee(s, ins):
        """canonical name of the function a call instruction invokes, or None"""
        if ins.op not in ('call', 'invoke'): return None
        if isinstance(ins.callee, str): return s.canon(ins.callee)
        if s.backend != 'cxx' or not isinstance(ins.callee, tuple): return None
        fn = ins.fn
        d = fn.def_of(ins.callee)
        if d is None or d.op != 'load': return None
        g = fn.def_of(d.ops[0])
        if g is None or g.op != 'getelementptr' or len(g.ops) != 2 or g.ops[1][0] != 'int': return None
        vt = fn.def_of(g.ops[0])
        if vt is None or vt.op != 'load': return None
        tab = s.vtable()
        k = g.ops[1][1]
        if 0 <= k < len(tab) and tab[k]: return s.canon(tab[k])
        return None

    def calls(s, fn, *canon):
        return [x for x in fn.ins if x.op in ('call', 'invoke') and s.callee(x) in canon]

    def callgraph(s):
        g = {}
        for f in s.mod.functions.values():
            g[f.name] = set()
            for x in f.ins:
                if x.op not in ('call', 'invoke'): continue
                if isinstance(x.callee, str): g[f.name].add(x.callee)
                else:
                    c = s.callee(x)
                    if c:
                        for t in s.fns(c): g[f.name].add(t.name)
        return g

    # ---- locations
    def is_var(s, loc, canon):
        """loc is the scanner register `canon`"""
        if loc is None: return False
        if s.backend == 'nr':
            return loc[0] == 'global' and unprefix(loc[1]) == canon
        if loc[0] != 'field': return False
        st, f = loc[1], loc[2]
        if s.backend == 'cxx':
            return re.fullmatch(r'((yy|foo|bar)?FlexLexer)(\.base)?', st) is not None and f == canon
        if st != 'yyguts_t': return False
        if s.backend == 'go': return f == GO_VARS.get(canon, canon)
        return f in (canon, canon + '_r')

    def is_buf(s, loc, canon):
        """loc is field `canon` of a struct yy_buffer_state"""
        if loc is None or loc[0] != 'field' or loc[1] != 'yy_buffer_state': return False
        c99n, gon = BUF_FIELDS.get(canon, (canon, canon))
        want = gon if s.backend == 'go' else c99n if s.backend == 'c99' else canon
        return loc[2] == want

    def elem_of(s, loc, canon):
        """loc is an element of the array that scanner register `canon` points to"""
        while loc is not None and loc[0] == 'elem' and loc[1][0] == 'elem': loc = loc[1]
        if loc is None or loc[0] != 'elem': return False
        b = loc[1]
        return b[0] == 'deref' and s.is_var(b[1], canon)

    def slot(s, loc):
        return s.elem_of(loc, 'yy_buffer_stack')

    def via_current(s, loc, fn=None):
        """loc is a yy_buffer_state field reached through the current-buffer slot (YY_CURRENT_BUFFER_LVALUE->f)"""
        if not (loc is not None and loc[0] == 'field' and loc[1] == 'yy_buffer_state' and loc[3][0] == 'deref'): return False
        if s.slot(loc[3][1]): return True
        # `yybuffer b = YY_CURRENT_BUFFER_LVALUE; b->f`: a named temporary (one assignment, address never taken) that was
        # assigned the value of the current-buffer slot (neutral diff m2P4)
        if fn is not None and isinstance(loc[3][1], tuple) and loc[3][1][0] == 'local':
            import ir as _ir, flow as _flow
            ld = next((x for x in fn.ins if x.op == 'load' and x.ops[0] == ('reg', loc[3][1][1])), None)
            tv = _flow.named_temporary(fn, ld) if ld is not None and not str(loc[3][1][1]).endswith('.addr') else None
            d = fn.def_of(_flow.strip_casts(fn, tv)) if tv is not None and tv[0] == 'reg' else None
            if d is not None and d.op == 'load' and s.slot(_ir.Resolver(fn).loc(d.ops[0])): return True
        return False

    def key(s, rule, fn, what):
        """stable report key: <rule>:<skeleton>:<canonical function>:<construct>"""
        return '%s:%s:%s:%s' % (rule, s.skel, fn if isinstance(fn, str) else s.canon(fn), what)

_cache = {}
def scanner(v):
    if v.name not in _cache: _cache[v.name] = Scanner(v)
    return _cache[v.name]

# ---------------------------------------------------------------- small predicate / path helpers
import flow

NEG = {'eq': 'ne', 'ne': 'eq', 'slt': 'sge', 'sge': 'slt', 'sgt': 'sle', 'sle': 'sgt',
       'ult': 'uge', 'uge': 'ult', 'ugt': 'ule', 'ule': 'ugt'}
SWAP = {'eq': 'eq', 'ne': 'ne', 'slt': 'sgt', 'sgt': 'slt', 'sle': 'sge', 'sge': 'sle',
        'ult': 'ugt', 'ugt': 'ult', 'ule': 'uge', 'uge': 'ule'}

def strip_ext(fn, v):
    """look through sext/zext/trunc/bitcast"""
    for _ in range(20):
        d = fn.def_of(v)
        if d is not None and d.op in ('sext', 'zext', 'trunc', 'bitcast'): v = d.ops[0]; continue
        break
    return v

def edge_constraint(fn, br, target):
    """(pred, a, b) that holds when conditional branch `br` goes to block named `target`; None if not decidable.
    `if (x)` on a non-compare value is reported as ('ne', x, ('int',0))."""
    if br.op != 'br' or not br.ops or len(br.targets) != 2 or br.targets[0] == br.targets[1]: return None
    if target not in br.targets: return None
    on_true = (target == br.targets[0])
    c = br.ops[0]; neg = False
    for _ in range(10):
        d = fn.def_of(c)
        if d is not None and d.op == 'xor' and d.ops[1] == ('int', 1): neg = not neg; c = d.ops[0]; continue
        break
    d = fn.def_of(c)
    if d is not None and d.op == 'icmp':
        pred, a, b = d.pred, d.ops[0], d.ops[1]
    elif d is not None and d.op == 'trunc':
        pred, a, b = 'ne', d.ops[0], ('int', 0)
    else:
        return None
    # icmp ne (zext(icmp ...)), 0  ->  inner compare
    for _ in range(4):
        if pred in ('ne', 'eq') and b == ('int', 0):
            i = fn.def_of(strip_ext(fn, a))
            if i is not None and i.op == 'icmp':
                inner = (i.pred, i.ops[0], i.ops[1])
                pred, a, b = inner if pred == 'ne' else (NEG[inner[0]], inner[1], inner[2])
                continue
        break
    if on_true == neg: pred = NEG.get(pred)
    if pred and a[0] in ('int', 'null') and b[0] not in ('int', 'null'): pred, a, b = SWAP[pred], b, a      # constant on the right
    return (pred, a, b) if pred else None

def lower_bound(fn, con, is_x):
    """con = (pred, a, b) with one side matching is_x(value) (through extensions) and the other an integer constant:
    returns the least value x can have under con (signed view), or None when con gives no lower bound."""
    if con is None: return None
    pred, a, b = con
    if b[0] != 'int' and a[0] == 'int': pred, a, b = SWAP[pred], b, a
    if b[0] != 'int' or not is_x(strip_ext(fn, a)): return None
    c = b[1]
    if pred in ('sge', 'eq'): return c
    if pred == 'sgt': return c + 1
    if pred == 'uge' and c >= 0: return c
    if pred == 'ugt' and c >= 0: return c + 1
    if pred == 'ne' and c == 0 and False: return None
    return None

def strictly_less(fn, con, is_x, is_y):
    """con implies x < y (both sides plain loads matched by is_x / is_y through extensions)"""
    if con is None: return False
    pred, a, b = con
    a = strip_ext(fn, a); b = strip_ext(fn, b)
    if pred in ('slt', 'ult') and is_x(a) and is_y(b): return True
    if pred in ('sgt', 'ugt') and is_y(a) and is_x(b): return True
    return False

def affine(fn, v, is_leaf):
    """v == leaf + k where leaf satisfies is_leaf(value) and k is an integer constant (through sext/zext/add/sub):
    returns (leaf_value, k) or None"""
    k = 0
    for _ in range(20):
        v = strip_ext(fn, v)
        if is_leaf(v): return (v, k)
        d = fn.def_of(v)
        if d is None: return None
        if d.op == 'add':
            if d.ops[1][0] == 'int': k += d.ops[1][1]; v = d.ops[0]; continue
            if d.ops[0][0] == 'int': k += d.ops[0][1]; v = d.ops[1]; continue
            return None
        if d.op == 'sub' and d.ops[1][0] == 'int': k -= d.ops[1][1]; v = d.ops[0]; continue
        return None
    return None

def var_deltas(sc, fn, canon, cfg):
    """Forward dataflow for one integer scanner register: for every load of it, the value relative to the value at
    function entry (an int delta) or None when not a constant offset.  Stores of (load + k) shift the delta, any other
    store or a call that may write it makes it unknown."""
    res = ir.Resolver(fn)
    TOP = 'top'
    is_load = {}
    for x in fn.ins:
        if x.op == 'load' and sc.is_var(res.loc(x.ops[0]), canon): is_load[x.res] = x
    instate = {fn.entry: 0}; out = {}
    work = [fn.entry]
    def join(a, b): return a if a == b else TOP
    n = 0
    while work and n < 10000:
        n += 1
        b = work.pop(); st = instate[b]
        for x in b.ins[:cfg._live_len(b)]:
            if x.op == 'load' and x.res in is_load: out[x] = st
            elif x.op == 'store' and sc.is_var(res.loc(x.ops[1]), canon):
                a = affine(fn, x.ops[0], lambda v: v[0] == 'reg' and v[1] in is_load)
                if a is None: st = TOP
                else:
                    base = out.get(is_load[a[0][1]], TOP)
                    st = TOP if base == TOP else base + a[1]
        for t in cfg.succ[b]:
            ns = st if t not in instate else join(instate[t], st)
            if t not in instate or instate[t] != ns:
                instate[t] = ns; work.append(t)
    return {x: (None if d == TOP else d) for x, d in out.items()}

def deep_slice(fn, v, seen=None, depth=0):
    """like flow.value_slice, but a load of a local continues into every store to that local (flow-insensitive)"""
    if seen is None: seen = set()
    out = []
    for d in flow.value_slice(fn, v):
        if d in seen: continue
        seen.add(d); out.append(d)
        if d.op == 'load' and depth < 8:
            a = fn.def_of(d.ops[0])
            if a is not None and a.op == 'alloca':
                for x in fn.ins:
                    if x.op == 'store' and x.ops[1] == d.ops[0]:
                        out += deep_slice(fn, x.ops[0], seen, depth + 1)
    return out

def is_current_value(sc, fn, v, res=None):
    """value v is the current buffer pointer: loaded from the top-of-stack slot (possibly through the
    `stack ? stack[top] : NULL` macro) or returned by yy_current_buffer()"""
    res = res or ir.Resolver(fn)
    for d in flow.value_slice(fn, flow.strip_casts(fn, v)):
        if d.op == 'load' and sc.slot(res.loc(d.ops[0])): return True
        if d.op in ('call', 'invoke') and sc.callee(d) == 'yy_current_buffer': return True
    return False

def current_null_edges(sc, fn):
    """CFG edges (block, successor) taken when a null test finds that there is no current buffer"""
    res = ir.Resolver(fn); out = set()
    for b in fn.blocks:
        br = b.ins[-1]
        bn = flow.branch_on_null(fn, br) if br.op == 'br' else None
        if bn is None: continue
        if is_current_value(sc, fn, bn[0], res): out.add((b, fn.bmap[bn[1]]))
        else:
            # `yy_buffer_stack ? yy_buffer_stack[top] : NULL` - no stack, no current buffer (clang branches on the parts of a
            # conditional operator separately when it is used as a condition)
            d = fn.def_of(flow.strip_casts(fn, bn[0]))
            if d is not None and d.op == 'load' and sc.is_var(res.loc(d.ops[0]), 'yy_buffer_stack'): out.add((b, fn.bmap[bn[1]]))
    return out

def entry_reach(cfg, fn, avoid=(), edge_filter=None):
    """instructions reachable from function entry without passing through `avoid`"""
    return cfg.reach(fn.entry.ins[0], avoid=avoid, include_start=True, edge_filter=edge_filter)

_eff_memo = {}
def effect_sites(sc, fn, pred, tag, depth=3):
    """Instructions of fn that perform an effect: stores x with pred(fn, x, resolver) true, plus calls of functions of the
    same scanner that perform it on every path from their entry to their return (callee summaries, to `depth` levels; the
    callee's paths are taken with no-current-buffer edges removed).  Makes a verdict independent of whether the effect is
    written inline or in an extracted helper.  `tag` names the predicate for memoisation."""
    res = ir.Resolver(fn)
    out = [x for x in fn.ins if x.op == 'store' and pred(fn, x, res)]
    if depth <= 0: return out
    for c in fn.ins:
        if c.op not in ('call', 'invoke'): continue
        name = sc.callee(c)
        if name is None: continue
        for g in sc.fns(name):
            if g is fn: continue
            k = (sc.v.name, g.name, tag, depth)
            if k not in _eff_memo:
                _eff_memo[k] = False        # recursion guard
                sites = effect_sites(sc, g, pred, tag, depth - 1)
                if sites:
                    cfg = sc.prog.cfg(g)
                    nulls = current_null_edges(sc, g)
                    ef = lambda a, b, nulls=nulls: (a, b) not in nulls
                    _eff_memo[k] = not any(y.op == 'ret' for y in entry_reach(cfg, g, avoid=sites, edge_filter=ef))
            if _eff_memo[k]: out.append(c); break
    return out
