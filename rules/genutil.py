"""Helpers shared by the generator-side rule modules c16 / c17 / c18 (rules over flex's own IR, ctx.flex).

Nothing here is a rule; it is plumbing: program-wide struct field names, robust C-string decoding,
selftest snippets compiled to IR, a collecting reporter for positive controls, call-graph reachability
that follows address-taken functions, and a small linear normaliser for size expressions.
"""
import os, re, hashlib, subprocess
import ir, flow
from ir import Resolver, loc_class
from common import VERIF, where, fwhere

# ------------------------------------------------------------------ field names across translation units

def field_names(prog, struct):
    """member names of `struct` (short name) taken from the first TU whose debug info defines it"""
    memo = prog.__dict__.setdefault('_gu_fields', {})
    if struct in memo: return memo[struct]
    out = None
    for m in prog.modules:
        for pre in ('struct.', 'union.', 'class.'):
            n = m.struct_fields(pre + struct)
            if n and not all(x.startswith('#') for x in n):
                out = n; break
        if out: break
    memo[struct] = out
    return out

def canon_field(prog, struct, f):
    """field name with '#k' placeholders (TU without debug info for the struct) mapped to the real name"""
    if f.startswith('#'):
        n = field_names(prog, struct)
        k = int(f[1:])
        if n and k < len(n): return n[k]
    return f

def cls(prog, loc):
    """object-insensitive location class with canonical field names"""
    c = loc_class(loc)
    if c and c[0] == 'field': return ('field', c[1], canon_field(prog, c[1], c[2]))
    return c

def is_elem_of_global(loc, g):
    """loc designates an element of the array the global pointer g points to (g[...]) or of the global array g"""
    if loc[0] != 'elem': return False
    b = loc[1]
    while b[0] == 'elem': b = b[1]
    return b == ('deref', ('global', g)) or b == ('global', g)

# ------------------------------------------------------------------ strings

def decode_cstr(t):
    out = []; k = 0
    while k < len(t):
        if t[k] == '\\':
            if t[k + 1] == '\\': out.append('\\'); k += 2
            else: out.append(chr(int(t[k + 1:k + 3], 16))); k += 3
        else:
            out.append(t[k]); k += 1
    r = ''.join(out)
    return r[:-1] if r.endswith('\0') else r

def cstring(mod, v):
    """C string literal a value points to, or None (never raises; `\\\\` handled)"""
    if not isinstance(v, tuple): return None
    if v[0] == 'cgep':
        if any(i != ('int', 0) for i in v[3]): return None
        v = v[2]
    if v[0] == 'ccast': return cstring(mod, v[2])
    if v[0] != 'glob': return None
    g = mod.globals.get(v[1])
    if g is None or g.init is None or not g.constant: return None
    if g.init[0] == 'cstr':
        try: return decode_cstr(g.init[1])
        except Exception: return None
    if g.init[0] == 'other' and g.init[1] == 'zeroinitializer' and g.ty is not None and g.ty.k == 'arr' and g.ty.b == ir.Ty('int', 8):
        return ''
    return None

def const_str(fn, a):
    """string literal passed as argument a, looking through casts and gettext()"""
    s = cstring(fn.mod, a)
    if s is not None: return s
    d = fn.def_of(flow.strip_casts(fn, a))
    if d is not None and d.op == 'call' and d.callee in ('gettext', 'dgettext', 'dcgettext') and d.ops:
        return cstring(fn.mod, d.ops[-1] if d.callee == 'gettext' else d.ops[1])
    return None

def all_cstrings(mod):
    for g in mod.globals.values():
        if g.init is not None and g.init[0] == 'cstr':
            try: yield g, decode_cstr(g.init[1])
            except Exception: yield g, g.init[1]

# ------------------------------------------------------------------ functions / reachability

def fns(prog):
    return sorted(set(prog.functions.values()), key=lambda f: (f.name, f.mod.path))

def srcfile(fn):
    """source file a function was written in (through #line: parse.y / scan.l), for keys"""
    return fn.file or os.path.basename(fn.mod.path).replace('.ll', '.c')

def calls(fn, *names):
    return [x for x in fn.ins if x.op in ('call', 'invoke') and x.callee in names]

def reach_fns(prog, roots):
    """functions reachable from roots through direct calls and through any function whose address is taken
    by a reachable function (flex passes filter_tee_header / filter_fix_linedirs / intcmp as pointers)"""
    names = {f.name for f in prog.functions.values()}
    edges = prog.__dict__.get('_gu_edges')
    if edges is None:
        edges = {}
        for f in set(prog.functions.values()):
            e = set()
            for x in f.ins:
                if x.op in ('call', 'invoke') and isinstance(x.callee, str): e.add(x.callee)
                for o in x.ops:
                    for g in ir.globs_in(o):
                        if g in names: e.add(g)
            edges[f.name] = e
        prog.__dict__['_gu_edges'] = edges
    seen = set(roots); st = list(roots)
    while st:
        x = st.pop()
        for y in edges.get(x, ()):
            if y not in seen: seen.add(y); st.append(y)
    return seen

def mod_globals(prog, fname):
    """names of globals that function `fname` may store to, directly or through callees (pointer stores through
    a loaded global pointer count as a modification of the pointed-to array, reported as '*name')"""
    memo = prog.__dict__.setdefault('_gu_mod', {})
    if fname in memo: return memo[fname]
    out = set()
    for n in reach_fns(prog, [fname]):
        f = prog.fn(n)
        if f is None: continue
        res = Resolver(f)
        for x in f.ins:
            if x.op == 'store':
                l = res.loc(x.ops[1]); r = ir.root_of(l)
                if r[0] == 'global':
                    out.add(r[1] if 'deref' not in _kinds(l) else '*' + r[1])
    memo[fname] = out
    return out

def _kinds(l):
    k = []
    while True:
        k.append(l[0])
        if l[0] in ('elem', 'deref'): l = l[1]
        elif l[0] == 'field': l = l[3]
        else: return k

# ------------------------------------------------------------------ selftest snippets (positive controls)

def selftest_program(ctx, name):
    """compile /verif/selftest/<name> (C) to IR with the flags E0 uses and return an ir.Program over it.
    rep.broken if the snippet is missing or does not compile: a control that cannot run is not a pass."""
    src = os.path.join(VERIF, 'selftest', name)
    if not os.path.exists(src): ctx.rep.broken('positive-control snippet %s is missing' % src)
    data = open(src, 'rb').read()
    h = hashlib.sha1(data + b'|O0g').hexdigest()[:12]
    d = os.path.join(ctx.art.dir, 'selftest'); os.makedirs(d, exist_ok=True)
    ll = os.path.join(d, '%s.%s.ll' % (os.path.splitext(name)[0], h))
    if not os.path.exists(ll):
        tmp = ll + '.%d.tmp' % os.getpid()
        p = subprocess.run(['clang', '-O0', '-g', '-fno-discard-value-names', '-S', '-emit-llvm', '-w', '-x', 'c', src, '-o', tmp],
                           stdout=subprocess.PIPE, stderr=subprocess.STDOUT)
        if p.returncode != 0: ctx.rep.broken('positive-control snippet %s does not compile: %s' % (name, p.stdout.decode(errors='replace')[-600:]))
        os.replace(tmp, ll)
    return ir.Program([ir.load_module(ll)])

class Collect:
    """stand-in reporter used when a rule runs on a positive-control snippet"""
    def __init__(s): s.oks = []; s.fails = []
    def ok(s, rule, text): s.oks.append((rule, text))
    def fail(s, rule, key, where, msg, **kw): s.fails.append((rule, key, msg))
    def keys(s): return {k for _, k, _ in s.fails}
    def note(s, t): pass

def expect_control(ctx, rule, col, must_fire, must_hold=0):
    """the control snippet must produce a failure for every key fragment in must_fire and at least must_hold passes"""
    ks = col.keys()
    for frag in must_fire:
        if not any(frag in k for k in ks):
            ctx.rep.broken('%s positive control did not fire for %r (got %s) - the rule would pass vacuously' % (rule, frag, sorted(ks)))
    if len(col.oks) < must_hold:
        ctx.rep.broken('%s positive control: only %d conforming instances recognised, expected >= %d' % (rule, len(col.oks), must_hold))
    ctx.rep.note('%s positive control fired on %s' % (rule, ', '.join(sorted(must_fire))))

# ------------------------------------------------------------------ values

def int_origin(fn, v):
    return flow.int_origin(fn, v)

def lin(fn, v, res=None, depth=0):
    """linear normal form of an integer value: dict atom -> coeff, atom 1 = constant term.
    Atoms: ('load', location) for loads of locals/globals/fields, ('call', callee, args...) for strlen-like pure calls,
    ('reg', name) otherwise.  Returns None when the expression is not linear."""
    res = res or Resolver(fn)
    if depth > 30: return None
    if v[0] == 'int': return {1: v[1]} if v[1] else {}
    d = fn.def_of(v)
    if d is None: return {('reg', v[1] if len(v) > 1 else str(v)): 1}
    if d.op in ('sext', 'zext', 'trunc', 'bitcast'): return lin(fn, d.ops[0], res, depth + 1)
    if d.op in ('add', 'sub'):
        a = lin(fn, d.ops[0], res, depth + 1); b = lin(fn, d.ops[1], res, depth + 1)
        if a is None or b is None: return None
        out = dict(a); s = 1 if d.op == 'add' else -1
        for k, c in b.items():
            out[k] = out.get(k, 0) + s * c
            if out[k] == 0: del out[k]
        return out
    if d.op == 'mul':
        a = lin(fn, d.ops[0], res, depth + 1); b = lin(fn, d.ops[1], res, depth + 1)
        if a is None or b is None: return None
        if set(a) <= {1}: a, b = b, a
        if not set(b) <= {1}: return None
        c = b.get(1, 0)
        return {k: x * c for k, x in a.items() if x * c}
    if d.op == 'shl' and d.ops[1][0] == 'int':
        a = lin(fn, d.ops[0], res, depth + 1)
        return None if a is None else {k: x << d.ops[1][1] for k, x in a.items()}
    if d.op == 'load':
        return {('load', flow._freeze(res.loc(d.ops[0]))): 1}
    return {('reg', d.res): 1}

def same_value_loads(prog, fn, l1, l2):
    """two loads of the same location see the same stored value: l1 dominates l2 and no store to the location
    (nor a call that may modify it, for globals) lies on a path l1 -> ... -> l2"""
    if l1 is l2: return True
    res = Resolver(fn); cfg = prog.cfg(fn)
    a = res.loc(l1.ops[0]); b = res.loc(l2.ops[0])
    if flow._freeze(a) != flow._freeze(b): return False
    if not cfg.ins_dominates(l1, l2): return False
    between = cfg.reach(l1, avoid=[l2])
    for x in between:
        if x.op == 'store' and flow._freeze(res.loc(x.ops[1])) == flow._freeze(a):
            if l2 in cfg.reach(x): return False
        if x.op in ('call', 'invoke') and a[0] == 'global' and isinstance(x.callee, str) and prog.fn(x.callee) is not None:
            if a[1] in mod_globals(prog, x.callee) and l2 in cfg.reach(x): return False
    return True

def array_len(fn, v):
    """(N, elemsize, location) if pointer value v is the start of a fixed array object [N x T] (local alloca or global), else None"""
    v = flow.strip_casts(fn, v)
    if v[0] == 'cgep':
        if all(i == ('int', 0) for i in v[3]) and v[1].k == 'arr' and v[2][0] == 'glob':
            return (v[1].a, fn.mod.sizeof(v[1].b), ('global', v[2][1]))
        return None
    if v[0] == 'glob':
        g = fn.mod.globals.get(v[1])
        if g is not None and g.ty is not None and g.ty.k == 'arr': return (g.ty.a, fn.mod.sizeof(g.ty.b), ('global', v[1]))
        return None
    d = fn.def_of(v)
    if d is None: return None
    if d.op == 'getelementptr' and d.srcty is not None and d.srcty.k == 'arr' and all(i == ('int', 0) for i in d.ops[1:]):
        b = d.ops[0]
        bd = fn.def_of(b)
        if bd is not None and bd.op == 'alloca': return (d.srcty.a, fn.mod.sizeof(d.srcty.b), ('local', bd.res))
        if b[0] == 'glob': return (d.srcty.a, fn.mod.sizeof(d.srcty.b), ('global', b[1]))
    return None

def branch_edges(fn, br):
    """for a conditional br on an icmp: (icmp, true_label, false_label) with xor-negations folded, else None"""
    if br.op != 'br' or not br.ops: return None
    d = fn.def_of(br.ops[0]); neg = False
    while d is not None and d.op == 'xor' and d.ops[1] == ('int', 1):
        neg = not neg; d = fn.def_of(d.ops[0])
    if d is None or d.op != 'icmp': return None
    t, f = br.targets[0], br.targets[1]
    return (d, f, t) if neg else (d, t, f)

def truth_edges(fn, br):
    """for a conditional br that tests a value against zero / null / false: (tested value, label taken when the value is
    non-zero, label taken when it is zero).  Handles `icmp ne/eq X, 0|null`, `trunc X to i1` (C bool), a bare i1, and
    xor-negations.  None for comparisons with other constants."""
    if br.op != 'br' or not br.ops or len(br.targets) != 2: return None
    v = br.ops[0]; t, f = br.targets[0], br.targets[1]
    for _ in range(8):
        d = fn.def_of(v)
        if d is None: return (v, t, f)
        if d.op == 'xor' and d.ops[1] == ('int', 1): v = d.ops[0]; t, f = f, t; continue
        if d.op == 'trunc': return (d.ops[0], t, f)
        if d.op == 'icmp' and d.pred in ('ne', 'eq'):
            a, b = d.ops
            if b in (('int', 0), ('null',)): x = a
            elif a in (('int', 0), ('null',)): x = b
            else: return None
            return (x, t, f) if d.pred == 'ne' else (x, f, t)
        if d.op == 'icmp': return None
        return (v, t, f)
    return None

def immutable_flag_filter(fn, at, res=None):
    """edge filter for CFG walks that start at instruction `at`: when `at` is dominated by a known edge of a branch on a
    local variable that is assigned exactly once (bool write_header = ...), later branches on the same variable can only
    take the same edge.  Returns (filter, facts)."""
    res = res or Resolver(fn)
    stores = {}
    for x in fn.ins:
        if x.op == 'store':
            l = res.loc(x.ops[1])
            if l[0] == 'local': stores[l] = stores.get(l, 0) + 1
    def flag_of(br):
        te = truth_edges(fn, br)
        if te is None: return None
        d = fn.def_of(flow.int_origin(fn, te[0]))
        if d is None or d.op != 'load': return None
        l = res.loc(d.ops[0])
        if l[0] != 'local' or stores.get(l, 0) != 1: return None
        return (l, te[1], te[2])
    cfg = CFGless(fn)
    facts = {}
    for b in fn.blocks:
        br = b.ins[-1] if b.ins else None
        if br is None or br.op != 'br' or len(br.targets) != 2: continue
        fl = flag_of(br)
        if fl is None: continue
        l, nz, z = fl
        for lab, val in ((nz, True), (z, False)):
            tb = fn.bmap[lab]
            if lab == (z if val else nz): continue
            if cfg.dominates(tb, at.blk) and all(p is b for p in tb.pred): facts[l] = val
    def filt(b, t):
        br = b.ins[-1]
        if br.op != 'br' or len(br.targets) != 2: return True
        fl = flag_of(br)
        if fl is None or fl[0] not in facts: return True
        l, nz, z = fl
        if nz == z: return True
        want = nz if facts[l] else z
        return t.name == want
    return filt, facts

class CFGless:
    """plain dominators of a function (no cut), cached on the function object"""
    def __init__(s, fn):
        c = getattr(fn, '_gu_cfg', None)
        if c is None:
            c = ir.CFG(fn); fn._gu_cfg = c
        s.c = c
    def dominates(s, a, b): return s.c.dominates(a, b)

def edge_dominates(cfg, fn, br, label, ins):
    """the CFG edge br.blk -> label dominates instruction ins (every path to ins takes that edge)"""
    tb = fn.bmap[label]
    if not cfg.dominates(tb, ins.blk): return False
    # the target must be entered only through this edge (otherwise dominance of the block says nothing about the edge)
    return all(p is br.blk for p in cfg.pred[tb])

# ------------------------------------------------------------------ tiny concrete evaluator

class EvalUnknown(Exception):
    pass

class PathEnd(Exception):
    """raised by a hook / observer to end the current path (its outcome is ('end', mem))"""
    pass

def _signed(v, w):
    v &= (1 << w) - 1
    return v - (1 << w) if v >> (w - 1) else v

class MiniEval:
    """Concrete evaluation of a few hundred IR instructions with chosen memory cells concrete and everything else
    symbolic.  A branch on a symbolic value forks.  Used to ask "what does this code do for status word 0x0100?" -
    nothing is executed, the IR is interpreted.

    Values: python int (signed, normalised to the instruction's width) or ('sym', text).
    hook(ins, argvals, mem) -> value | None: called for every call; None = opaque (symbolic result, memory untouched).
    Outcomes: list of ('ret', value, mem) | ('exit', callee, argvals, mem) | ('dead', mem)."""
    def __init__(s, prog, hook=None, max_steps=40000, max_paths=256, memo=False, inline=True, stop=None, observe=None, max_visits=None):
        """memo: a branch on a symbolic condition that was already decided on this path (same memory cell, not stored
        since) takes the same edge again (`if (!optarg && ..) .. if (!optarg)`).  inline: evaluate small callees that
        get a concrete argument.  stop: instruction at which a path ends with outcome ('hit', regs, mem)."""
        s.prog = prog; s.hook = hook; s.max_steps = max_steps; s.max_paths = max_paths
        s.steps = 0; s.paths = 0; s.memo = memo; s.inline = inline; s.stop = stop
        s.observe = observe            # observe(store instruction, regs, mem) for every store executed; may raise PathEnd
        s.max_visits = max_visits      # a path that enters the same block more often is cut (loops on symbolic bounds)
        s.nr = prog.noreturn()
    @staticmethod
    def _norm(p):
        """(base payload, polarity): the symbolic condition p is true iff base is true == polarity"""
        pol = True
        while isinstance(p, tuple):
            if p and p[0] == 'not': pol = not pol; p = p[1]
            elif p and p[0] == 'cmp' and p[3] == 0 and p[1] in ('ne', 'eq'):
                if p[1] == 'eq': pol = not pol
                p = p[2]
            else: break
        return p, pol
    @staticmethod
    def _mentions(p, k):
        if p == k: return True            # the cell itself, or a cell reached through it (('deref', k), a field of *k)
        return isinstance(p, tuple) and any(MiniEval._mentions(q, k) for q in p if isinstance(q, tuple))
    def key(s, res, ptr):
        return flow._freeze(res.loc(ptr))
    def val(s, v, regs):
        if v[0] == 'int': return v[1]
        if v[0] == 'null': return 0
        if v[0] == 'reg': return regs.get(v[1], ('sym', '%' + v[1]))
        return ('sym', str(v)[:40])
    def run(s, fn, blk, idx, regs, mem, depth=0):
        """evaluate fn from blk.ins[idx]; returns outcomes"""
        res = Resolver(fn)
        out = []
        work = [(blk, idx, None, dict(regs), dict(mem))]
        while work:
            blk, idx, prev, regs, mem = work.pop()
            s.paths += 1
            if s.paths > s.max_paths: raise EvalUnknown('more than %d paths' % s.max_paths)
            while True:
                nxt = None; done = False
                for x in blk.ins[idx:]:
                    s.steps += 1
                    if s.steps > s.max_steps: raise EvalUnknown('more than %d steps' % s.max_steps)
                    op = x.op
                    if x is s.stop:
                        out.append(('hit', dict(regs), mem)); done = True; break
                    if op == 'phi':
                        for v, lab in zip(x.ops, x.cases):
                            if prev is not None and lab == prev.name: regs[x.res] = s.val(v, regs)
                    elif op == 'alloca': pass
                    elif op == 'load':
                        k = s.key(res, x.ops[0])
                        if s.memo and 'elem' in str(k): regs[x.res] = mem[k] if False else ('sym', 'element')     # g[i] for different i are different cells: no identity
                        else: regs[x.res] = mem[k] if k in mem else ('sym', ('mem', k))
                    elif op == 'store':
                        k = s.key(res, x.ops[1])
                        v = s.val(x.ops[0], regs)
                        if s.observe is not None:
                            try: s.observe(x, regs, mem)
                            except PathEnd:
                                out.append(('end', mem)); done = True; break
                        if s.memo and isinstance(v, tuple): v = ('sym', ('mem', k))      # an unknown value: from now on "what cell k holds"
                        if not (s.memo and 'elem' in str(k)): mem[k] = v
                        if s.memo and mem.get('__dec__'):
                            mem['__dec__'] = {b_: v_ for b_, v_ in mem['__dec__'].items() if not s._mentions(b_, k)}
                    elif op in ('sext', 'bitcast', 'ptrtoint', 'inttoptr', 'freeze'):
                        regs[x.res] = s.val(x.ops[0], regs)
                    elif op == 'zext':
                        v = s.val(x.ops[0], regs)
                        if isinstance(v, int) and x.srcty is not None and x.srcty.k == 'int': v &= (1 << x.srcty.a) - 1
                        regs[x.res] = v
                    elif op == 'trunc':
                        v = s.val(x.ops[0], regs)
                        if isinstance(v, int) and x.ty is not None and x.ty.k == 'int':
                            v = (v & 1) if x.ty.a == 1 else _signed(v, x.ty.a)
                        regs[x.res] = v
                    elif op in ('add', 'sub', 'mul', 'and', 'or', 'xor', 'shl', 'ashr', 'lshr', 'sdiv', 'srem', 'udiv', 'urem'):
                        a = s.val(x.ops[0], regs); b = s.val(x.ops[1], regs)
                        w = x.ty.a if x.ty is not None and x.ty.k == 'int' else 64
                        if isinstance(a, int) and isinstance(b, int):
                            ua = a & ((1 << w) - 1); ub = b & ((1 << w) - 1)
                            try:
                                r = {'add': a + b, 'sub': a - b, 'mul': a * b, 'and': ua & ub, 'or': ua | ub, 'xor': ua ^ ub,
                                     'shl': ua << (ub % w), 'ashr': _signed(ua, w) >> (ub % w), 'lshr': ua >> (ub % w),
                                     'sdiv': int(a / b) if b else 0, 'srem': a - int(a / b) * b if b else 0,
                                     'udiv': ua // ub if ub else 0, 'urem': ua % ub if ub else 0}[op]
                            except Exception: r = ('sym', op)
                            regs[x.res] = (r & 1) if (isinstance(r, int) and w == 1) else (_signed(r, w) if isinstance(r, int) else r)
                        elif op == 'and' and 0 in (a, b): regs[x.res] = 0
                        elif op == 'mul' and 0 in (a, b): regs[x.res] = 0
                        elif op == 'xor' and b == 1 and w == 1 and isinstance(a, tuple): regs[x.res] = ('sym', ('not', a[1]))
                        elif op == 'and' and isinstance(a, tuple) and isinstance(a[1], tuple) and isinstance(b, int): regs[x.res] = ('sym', ('and', a[1], b))
                        else: regs[x.res] = ('sym', '(%s)' % op)
                    elif op == 'icmp':
                        a = s.val(x.ops[0], regs); b = s.val(x.ops[1], regs)
                        if isinstance(a, int) and isinstance(b, int):
                            w = x.ty.a if x.ty is not None and x.ty.k == 'int' else 64
                            sa, sb = _signed(a, w), _signed(b, w); ua, ub = a & ((1 << w) - 1), b & ((1 << w) - 1)
                            regs[x.res] = int({'eq': ua == ub, 'ne': ua != ub, 'sgt': sa > sb, 'sge': sa >= sb, 'slt': sa < sb, 'sle': sa <= sb,
                                               'ugt': ua > ub, 'uge': ua >= ub, 'ult': ua < ub, 'ule': ua <= ub}[x.pred])
                        elif isinstance(a, tuple) and isinstance(b, int): regs[x.res] = ('sym', ('cmp', x.pred, a[1], b))
                        else: regs[x.res] = ('sym', 'icmp')
                    elif op == 'select':
                        c = s.val(x.ops[0], regs)
                        if isinstance(c, int): regs[x.res] = s.val(x.ops[1] if c else x.ops[2], regs)
                        else:
                            a = s.val(x.ops[1], regs); b = s.val(x.ops[2], regs)
                            regs[x.res] = a if a == b else ('sym', 'select')
                    elif op == 'getelementptr': regs[x.res] = ('sym', 'addr')
                    elif op in ('call', 'invoke'):
                        av = [s.val(a, regs) for a in x.ops]
                        if isinstance(x.callee, str) and x.callee in s.nr:
                            out.append(('exit', x.callee, av, mem)); done = True; break
                        for a_ in x.ops:      # a local whose address is handed to the callee may be changed by it
                            da = fn.def_of(a_) if isinstance(a_, tuple) else None
                            if da is not None and da.op == 'alloca':
                                k = ('local', da.res); mem.pop(k, None)
                                if mem.get('__dec__'): mem['__dec__'] = {b_: v_ for b_, v_ in mem['__dec__'].items() if not s._mentions(b_, k)}
                        try: r = s.hook(x, av, mem) if s.hook is not None else None
                        except PathEnd:
                            out.append(('end', mem)); done = True; break
                        g = s.prog.fn(x.callee) if isinstance(x.callee, str) else None
                        if r is None and s.inline and g is not None and g.blocks and depth < 2 and any(isinstance(a, int) for a in av) and sum(len(b.ins) for b in g.blocks) <= 120:
                            # small helper with a concrete argument (a status predicate): evaluate it
                            cregs = {}
                            for (ty, nm), a in zip(g.params, av):
                                if nm is not None: cregs[nm] = a
                            subs = s.run(g, g.entry, 0, cregs, mem, depth + 1)
                            rets = [o for o in subs if o[0] == 'ret']
                            exits = [o for o in subs if o[0] == 'exit']
                            out += exits
                            if not rets: done = True; break
                            for o in rets[1:]:
                                r2 = dict(regs); r2[x.res] = o[1]
                                work.append((blk, x.idx + 1, prev, r2, dict(o[2])))
                            regs[x.res] = rets[0][1]; mem = dict(rets[0][2])
                        elif x.res is not None:
                            regs[x.res] = r if r is not None else ('sym', 'call %s' % x.callee)
                    elif op == 'ret':
                        out.append(('ret', s.val(x.ops[0], regs) if x.ops else None, mem)); done = True; break
                    elif op == 'unreachable':
                        out.append(('dead', mem)); done = True; break
                    elif op == 'br':
                        if not x.ops: nxt = [x.targets[0]]
                        else:
                            c = s.val(x.ops[0], regs)
                            if isinstance(c, int): nxt = [x.targets[0] if c else x.targets[1]]
                            elif s.memo and isinstance(c, tuple) and isinstance(c[1], tuple) and x.targets[0] != x.targets[1]:
                                base, pol = s._norm(c[1]); dec = mem.get('__dec__', {})
                                if not (isinstance(base, tuple) and base and base[0] in ('mem', 'and')) and not (isinstance(base, str) and base.startswith('%')):
                                    nxt = list(dict.fromkeys(x.targets))       # no identity: an anonymous value, decide afresh
                                elif base in dec: nxt = [x.targets[0] if dec[base] == pol else x.targets[1]]
                                else:
                                    # fork: first target = condition true
                                    m2 = dict(mem); m2['__dec__'] = dict(dec); m2['__dec__'][base] = (not pol)
                                    work.append((fn.bmap[x.targets[1]], 0, blk, dict(regs), m2))
                                    mem['__dec__'] = dict(dec); mem['__dec__'][base] = pol
                                    nxt = [x.targets[0]]
                            else: nxt = list(dict.fromkeys(x.targets))
                        break
                    elif op == 'switch':
                        c = s.val(x.ops[0], regs)
                        if isinstance(c, int):
                            t = [lab for v, lab in x.cases if v == c]
                            nxt = [t[0] if t else x.callee]
                        else: nxt = list(dict.fromkeys(x.targets))
                        break
                    else:
                        if x.res is not None: regs[x.res] = ('sym', op)
                if done or nxt is None: break
                for lab in nxt[1:]:
                    m2 = dict(mem)
                    if '__dec__' in m2: m2['__dec__'] = dict(m2['__dec__'])
                    work.append((fn.bmap[lab], 0, blk, dict(regs), m2))
                prev = blk; blk = fn.bmap[nxt[0]]; idx = 0
                if s.max_visits is not None:
                    vis = dict(mem.get('__vis__', {})); vis[blk.name] = vis.get(blk.name, 0) + 1; mem['__vis__'] = vis
                    if vis[blk.name] > s.max_visits:
                        out.append(('cut', mem)); break
        return out


# ------------------------------------------------------------------ loops over (array parameter, count parameter) pairs

def _sx(f, v):
    while v[0] == 'reg':
        d = f.def_of(v)
        if d is not None and d.op in ('sext', 'zext', 'trunc', 'bitcast'): v = d.ops[0]
        else: break
    return v

def param_array_loops(prog, fn):
    """[(branch, counter local, init constants, predicate, count parameter, [array parameters])] for every loop of fn whose
    exit test compares a counter with a count parameter and whose body indexes array parameters with that counter"""
    import ir
    res = ir.Resolver(fn); cfg = prog.cfg(fn, cut=False)
    params = {p[1] + '.addr' for p in fn.params if p[1]}
    out = []
    for b in fn.blocks:
        br = b.ins[-1]
        if br.op != 'br' or not br.ops or len(br.targets) != 2: continue
        if not any(y.blk is b for y in cfg.reach(br)): continue           # not a loop test
        d = fn.def_of(br.ops[0])
        if d is None or d.op != 'icmp' or d.pred not in ('sle', 'slt', 'ule', 'ult'): continue
        a = fn.def_of(_sx(fn, d.ops[0])) if d.ops[0][0] == 'reg' else None
        c = fn.def_of(_sx(fn, d.ops[1])) if d.ops[1][0] == 'reg' else None
        if a is None or c is None or a.op != 'load' or c.op != 'load': continue
        la = res.loc(a.ops[0]); lc = res.loc(c.ops[0])
        if la[0] != 'local' or lc[0] != 'local' or lc[1] not in params or la[1] in params: continue
        if any(x.op == 'store' and res.loc(x.ops[1]) == lc for x in fn.ins if x.blk is not fn.entry): continue   # count is modified
        inits = [x.ops[0][1] for x in fn.ins if x.op == 'store' and res.loc(x.ops[1]) == la and x.ops[0][0] == 'int']
        other = [x for x in fn.ins if x.op == 'store' and res.loc(x.ops[1]) == la and x.ops[0][0] != 'int']
        # every non-constant store of the counter is counter + 1
        ok = True
        for x in other:
            dd = fn.def_of(x.ops[0])
            if not (dd is not None and dd.op == 'add' and ('int', 1) in dd.ops): ok = False
        if not ok or not inits: continue
        arrs = set()
        for x in fn.ins:
            if x.op == 'getelementptr' and len(x.ops) == 2 and x.ops[1][0] == 'reg' and x.ops[0][0] == 'reg':
                i = fn.def_of(_sx(fn, x.ops[1])); bse = fn.def_of(x.ops[0])
                if i is not None and i.op == 'load' and res.loc(i.ops[0]) == la and bse is not None and bse.op == 'load':
                    lb = res.loc(bse.ops[0])
                    if lb[0] == 'local' and lb[1] in params: arrs.add(lb[1][:-5])
        if arrs: out.append((br, la[1], inits, d.pred, lc[1][:-5], sorted(arrs)))
    return out

def rule_param_array_loops(rep, prog, rule, fns, keyfile=lambda f: f.file):
    """a loop `for (i = c0; i OP n; ++i) ... a[i]` over an array parameter a and its count parameter n visits exactly n
    elements: flex's sets are 1-based with an inclusive count (i = 1; i <= n) or 0-based with an exclusive one
    (i = 0; i < n); (1, <) skips the last element, (0, <=) reads one past the end."""
    from common import where
    n = 0
    for f in fns:
        for br, ctr, inits, pred, cnt, arrs in param_array_loops(prog, f):
            n += 1
            shapes = {(c0, pred[1:]) for c0 in inits}
            good = shapes <= {(1, 'le'), (0, 'lt')}
            key = '%s:%s:%s:%s[%s]:loop-bounds' % (rule, keyfile(f), f.name, '/'.join(arrs), cnt)
            if good:
                rep.ok(rule, '%s(): loop over %s[%s..%s] visits exactly %s elements' % (f.name, '/'.join(arrs), inits[0], cnt if pred[1:] == 'le' else cnt + '-1', cnt))
            else:
                c0 = inits[0]
                rep.fail(rule, key, where(br), '%s() walks %s with `%s = %d; %s %s %s`: that %s (its other loops over (array, count) parameters run 1..n inclusive or 0..n-1)' % (
                    f.name, '/'.join(arrs), ctr, c0, ctr, '<=' if pred[1:] == 'le' else '<', cnt,
                    'never looks at the last element' if (c0, pred[1:]) == (1, 'lt') else 'reads one element past the end' if (c0, pred[1:]) == (0, 'le') else 'does not cover the %s elements' % cnt))
    return n
