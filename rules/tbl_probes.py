"""Language probes for the table-language comparison (C01.R7 / C02.R5): small rule sets that between them use every piece
of the documented pattern syntax, instantiated under every table representation."""
import variants

LANG = {
 'kw': r'''
%%
if|else|while    { return 1; }
[a-z]+           { return 2; }
[a-z]+[0-9]*     { return 3; }
[0-9]+           { return 4; }
[0-9]+"."[0-9]*  { return 5; }
"=="|"!="|"<="   { return 6; }
[ \t\n]+         { }
.                { return 9; }
%%
''',
 'posix': r'''
%%
[[:alpha:]]+        { return 1; }
[[:digit:]]+        { return 2; }
[[:upper:][:digit:]]+ { return 3; }
[[:space:]]         { return 4; }
[[:punct:]]         { return 5; }
[[:xdigit:]]{2}     { return 6; }
[[:^alnum:][:blank:]] { return 7; }
[[:cntrl:]]         { return 8; }
[[:^print:]]        { return 9; }
[[:graph:]]"~"      { return 10; }
[[:lower:]]"_"      { return 11; }
[[:^digit:]]"#"     { return 12; }
%%
''',
 'classops': r'''
%%
[a-z]{-}[aeiou]+      { return 1; }
[a-c]{+}[x-z]         { return 2; }
[^\x01-\xfd]{+}[0-3]  { return 9; }
[A-Z]{+}[^\x00-\xfc]   { return 10; }
[a-z]{-}[m-p]{+}[0-3] { return 3; }
[^a-z\n]              { return 4; }
[^\x00-\x7f]+         { return 5; }
[\x80-\xfe]"!"        { return 6; }
[]a]"]"               { return 7; }
[a\-z]"-"             { return 8; }
%%
''',
 'repeat': r'''
ID   [a-z][a-z0-9]*
%%
a{2,4}b        { return 1; }
(ab){3}        { return 2; }
x{2,}          { return 3; }
y{3}           { return 4; }
c?d+e*         { return 5; }
(f|gh)+i       { return 6; }
{ID}"("        { return 7; }
{ID}|z+        { return 8; }
"a+b"          { return 9; }
foo|bar*       { return 10; }
[k-m]q|kq      { return 11; }
(n|no|[n-p]o)r  { return 12; }
("ab"+c)?d     { return 21; }
("xy"*z){0,2}w { return 22; }
(("pq")+r|s)*t { return 23; }
%%
''',
 'flags': r'''
%%
(?i:select)          { return 1; }
(?i:ab)c             { return 2; }
(?s:x.y)             { return 3; }
x.z                  { return 4; }
(?i:[a-c]+)"1"       { return 5; }
(?-i:Q)(?i:q)        { return 6; }
(?i:k(?-i:L)m)       { return 7; }
(?i:r){3}            { return 8; }
(?i:st){2,3}"!"      { return 9; }
u(?i:v){2,}w         { return 10; }
%%
''',
 'caseless': r'''
%option caseless
%%
begin|end       { return 1; }
[a-f]+"h"       { return 2; }
[[:upper:]]"_"  { return 3; }
[^a-z\n]        { return 4; }
"Mixed"         { return 5; }
g{2}k           { return 6; }
(mn){2,3}"?"    { return 7; }
q{2,}"!"        { return 8; }
%%
''',
 'escapes': r'''
%%
\n\t          { return 1; }
\x41\102      { return 2; }
\0            { return 3; }
"\"q\""       { return 4; }
\\\.          { return 5; }
\x7f|\377     { return 6; }
[\0\1]"z"     { return 7; }
\a\b\f\r\v    { return 8; }
%%
''',
 'anchors': r'''
%%
^a             { return 1; }
a              { return 2; }
b$             { return 3; }
b              { return 4; }
cd/ef          { return 5; }
cdef           { return 6; }
cd             { return 7; }
^x+/y          { return 8; }
x+             { return 9; }
^[ \t]*\n      { return 10; }
\n             { return 11; }
%%
''',
 'nest': r'''
%s INC1 INC2
%x EXC1 EXC2
%%
<INC1>{
  p            { return 1; }
  <EXC1>q      { return 2; }
  <INC2,EXC2>{
     r         { return 3; }
     ^s        { return 4; }
  }
  <*>{
     k         { return 12; }
  }
  m            { return 13; }
  <*>n         { return 14; }
  o            { return 15; }
}
<EXC1,EXC2>t   { return 5; }
<*>u           { return 6; }
<INITIAL>v     { return 7; }
w              { return 8; }
^w2            { return 9; }
<EXC2><<EOF>>  { return 10; }
<INC2>[a-z]    { return 11; }
%%
''',
 'sc': r'''
%x XA XB
%s SI
%%
^begin         { return 1; }
end$           { return 2; }
ab/cd          { return 3; }
abcd           { return 4; }
<XA>x+         { return 5; }
<XA,XB>y       { return 6; }
<*>z           { return 7; }
<SI>q          { return 8; }
<SI>^q2        { return 9; }
<XB>{
  m            { return 10; }
  ^n           { return 11; }
}
<INITIAL,XA>w  { return 12; }
<XA><<EOF>>    { return 13; }
[a-z]+         { return 14; }
%%
''',
 # definitions are expanded inside parentheses, in flex's own mode and in POSIX mode alike (manual, "Patterns")
 'defs': r'''
SIGN   plus|minus
TAIL   ab|cd
%%
{SIGN}[0-9]+     { return 1; }
x{TAIL}*y        { return 2; }
{SIGN}           { return 3; }
[a-z]+           { return 4; }
%%
''',
 'posixdefs': r'''
%option posix-compat
SIGN   plus|minus
TAIL   ab|cd
%%
{SIGN}[0-9]+     { return 1; }
x{TAIL}*y        { return 2; }
{SIGN}           { return 3; }
[a-z]+           { return 4; }
%%
''',
 # NUL shares the highest-numbered equivalence class with an ordinary character; 4 and 8 classes (powers of two: rest, newline, the letters, {z, NUL})
 'nulshare': r'''
%%
[z\0]+         { return 1; }
a              { return 2; }
(.|\n)         { return 3; }
%%
''',
 'nulshare8': r'''
%%
[z\0]+         { return 1; }
a              { return 2; }
b              { return 3; }
c              { return 4; }
d              { return 5; }
e              { return 6; }
(.|\n)         { return 7; }
%%
''',
 # small states with a transition on the last equivalence class: exercise the first-fit placement of -CF tables
 'sparse': r'''
%%
"ab"  { return 1; }
"abhh"  { return 2; }
"bdgde"  { return 3; }
"bggdz"  { return 4; }
"bhac"  { return 5; }
"bzf"  { return 6; }
"chzd"  { return 7; }
"ecbaf"  { return 8; }
"ehchz"  { return 9; }
"ez"  { return 10; }
"ezgf"  { return 11; }
"fbhde"  { return 12; }
"gb"  { return 13; }
"gc"  { return 14; }
"gzec"  { return 15; }
"gzfz"  { return 16; }
"hzg"  { return 17; }
"zagg"  { return 18; }
"ze"  { return 19; }
"zfh"  { return 20; }
[a-h]+z?  { return 30; }
[ \n]+  { }
%%
''',
 'sparse2': r'''
%%
"fbhde"  { return 1; }
"gzfz"  { return 2; }
[a-h]+z?  { return 3; }
%%
''',
}

TABLEOPTS = [('Cem', ['ecs', 'meta-ecs']), ('Ce', ['ecs', 'nometa-ecs']), ('Cm', ['noecs', 'meta-ecs']), ('C', ['noecs', 'nometa-ecs']),
             ('Cf', ['full']), ('Cfe', ['full', 'ecs']), ('CF', ['fast']), ('CFe', ['fast', 'ecs']), ('CFae', ['fast', 'ecs', 'align']), ('Cema', ['ecs', 'meta-ecs', 'align'])]

def scanl_probe(art):
    """flex's own input language as a probe: the definitions, start conditions and all rule patterns of the scan.l under
    analysis, with every action replaced by `return <rule number>` (the largest rule set at hand: ~275 rules, 27 start
    conditions, caseless, trailing context; its compressed table without equivalence classes has more than 32767 entries)"""
    import lex
    sp = lex.parse_spec(art.source('scan.l'))
    L = []
    for n, d in sp.defs.items(): L.append('%s %s' % (n, d))
    for sc in sp.sc_order[1:]: L.append(('%x ' if sc in sp.exclusive else '%s ') + sc)
    L.append('%%')
    k = 0
    for r in sp.rules:
        sc = ('<%s>' % ','.join(r.scs)) if r.scs else ''
        if r.is_eof: L.append('%s<<EOF>> { return 0; }' % sc); continue
        k += 1
        L.append('%s%s  { return %d; }' % (sc, r.pat, k))
    L.append('%%')
    return ('%option caseless\n' if sp.caseless else '') + '\n'.join(L) + '\n', k

C99_PROBES = ('escapes', 'nulshare', 'kw', 'anchors')

def language_variants(thorough=False, art=None):
    out = []
    probes = dict(LANG)
    if art is not None:
        body, nrules = scanl_probe(art)
        if nrules < 250: raise RuntimeError('scan.l probe has only %d rules' % nrules)
        probes['scanl'] = body
    for name, body in probes.items():
        for tn, topts in TABLEOPTS:
            for rej in (False, True):
                if rej and tn.startswith(('Cf', 'CF')): continue       # refused by flex
                if rej and not thorough and tn not in ('Cem', 'C'): continue
                if name == 'scanl' and (rej or (not thorough and tn not in ('Cem', 'C', 'Cf', 'CF', 'CFe'))): continue
                opts = ['noyywrap', '8bit'] + topts + (['reject'] if rej else [])
                spec = ''.join('%%option %s\n' % o for o in opts) + body.lstrip('\n')
                out.append(variants.Variant('lang_%s_%s%s' % (name, tn, '_rej' if rej else ''), 'nr', (), opts, raw_spec=spec))
                # the c99 back end prints its own copies of the tables: a few probes, the representations with NUL handling
                if name in C99_PROBES and not rej and tn in ('Cem', 'Cf', 'Cfe', 'CF'):
                    spec99 = '%option emit="c99"\n' + spec
                    out.append(variants.Variant('lang_%s99_%s' % (name, tn), 'c99', (), opts, raw_spec=spec99))
    return out
