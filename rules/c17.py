"""C17 - 'rule cannot be matched' / default-rule warnings (rules over flex's own IR).

The "if and only if" of the property is a statement about the subset construction and is NOT decided here.  Decided:

R1  -w changes nothing but stderr.  For every function that reads env.nowarn (today: line_warning() and the statistics
    printer of flexend()) the loaded value only feeds branch conditions, and everything those branches control writes
    to the function's own locals and to stderr only (effect summary, callees included).
R2  usefulness bookkeeping.  rule_useful[] is written false only in new_rule() (for the rule just created, on every
    path), true only in snstods(); flex_main() issues "rule cannot be matched" from a loop over i = 1..num_rules that
    depends on nothing but !rule_useful[i] && i != default_rule, after ntod(); the -s warning depends on nothing but
    ctrl.spprdflt, reject and rule_useful[default_rule].
"""
import ir, flow
from ir import Resolver
from common import where, fwhere
from genutil import (fns, srcfile, cls, const_str, array_len, truth_edges, branch_edges, selftest_program, Collect,
                     expect_control, is_elem_of_global, lin)

def key(rule, f, construct):
    return '%s:%s:%s:%s' % (rule, srcfile(f), f.name, construct)

# ================================================================ effect summaries

PURE = {'gettext', 'dgettext', 'dcgettext', 'strlen', 'strcmp', 'strncmp', 'strchr', 'isprint', 'isascii', '__ctype_b_loc',
        'llvm.va_start', 'llvm.va_end', 'llvm.memset.p0i8.i64', 'llvm.memcpy.p0i8.p0i8.i64'}
STREAM_ARG = {'fprintf': 0, 'vfprintf': 0, 'fputs': 1, 'fputc': 1, 'putc': 1, '_IO_putc': 1, 'fwrite': 3, 'fflush': 0}
LOCAL_FMT = {'snprintf': 0, 'vsnprintf': 0}

def effects(prog, fn, instrs, depth=0, seen=None):
    """list of (ins, description) for every effect of `instrs` that is visible outside fn other than text on stderr"""
    res = Resolver(fn); out = []
    seen = seen if seen is not None else set()
    for x in instrs:
        if x.op == 'store':
            l = res.loc(x.ops[1]); r = ir.root_of(l)
            if r[0] == 'local' and r[1] != 'retval' and 'deref' not in _kinds(l): continue
            out.append((x, 'stores to %s' % ir.loc_str(l)))
        elif x.op in ('call', 'invoke'):
            c = x.callee
            if not isinstance(c, str): out.append((x, 'indirect call')); continue
            if c in PURE or c.startswith('llvm.dbg') or c.startswith('llvm.lifetime'): continue
            if c in STREAM_ARG:
                d = fn.def_of(flow.strip_casts(fn, x.ops[STREAM_ARG[c]])) if len(x.ops) > STREAM_ARG[c] else None
                if d is not None and d.op == 'load' and res.loc(d.ops[0]) == ('global', 'stderr'): continue
                out.append((x, '%s to a stream other than stderr' % c)); continue
            if c in LOCAL_FMT:
                al = array_len(fn, x.ops[LOCAL_FMT[c]])
                if al is not None and al[2][0] == 'local': continue
                out.append((x, '%s into non-local memory' % c)); continue
            g = prog.fn(c)
            if g is None or not g.blocks: out.append((x, 'calls external %s()' % c)); continue
            if depth >= 3: out.append((x, 'call chain too deep at %s()' % c)); continue
            if g.name in seen: continue
            seen.add(g.name)
            sub = effects(prog, g, list(g.ins), depth + 1, seen)
            # stores through pointer parameters of the callee that point into the caller's locals are invisible outside
            for y, d_ in sub: out.append((x, 'calls %s(), which %s @%s' % (c, d_, y.line)))
    return out

def _kinds(l):
    k = []
    while True:
        k.append(l[0])
        if l[0] in ('elem', 'deref'): l = l[1]
        elif l[0] == 'field': l = l[3]
        else: return k

def controlled_region(prog, fn, brs):
    """instructions of blocks that are (transitively) control dependent on any branch in brs"""
    cfg = prog.cfg(fn, cut=False)
    brs = set(brs); out = []
    for b in fn.blocks:
        if any(br in brs for br, _ in cfg.control_deps_closure(b)): out += b.ins
    return out

def only_feeds_branches(fn, load):
    """the loaded value is used only to compute branch conditions (casts / comparisons / negations in between).
    Returns (branches, offending use or None)."""
    uses = fn.uses(); work = [load.res]; seen = set(); brs = []
    while work:
        r = work.pop()
        if r in seen or r is None: continue
        seen.add(r)
        for u in uses.get(r, []):
            if u.op in ('trunc', 'zext', 'sext', 'icmp', 'xor'): work.append(u.res)
            elif u.op == 'br': brs.append(u)
            else: return brs, u
    return brs, None

# ================================================================ R1 / generic who-reads + effect rule

def who_reads(prog, rep, rule, field, readers, what):
    """field: ('struct', 'member').  Every function that loads the field is an instance: the value may only steer
    branches, and what those branches control may only touch the function's own locals and stderr.
    readers: {function: description | {'allow': predicate(prog, fn, ins)}} - known readers; a predicate excuses the
    specific, reviewed effects of that reader (C18.R5: the freopen decision in check_options)."""
    n = 0
    for f in fns(prog):
        res = Resolver(f)
        for x in f.ins:
            if x.op != 'load' or cls(prog, res.loc(x.ops[0])) != ('field', field[0], field[1]): continue
            n += 1
            # a reader that is not one of the known ones is held to the strictest summary (stderr / own locals only)
            brs, bad = only_feeds_branches(f, x)
            if bad is not None:
                rep.fail(rule, key(rule, f, 'escapes-%s' % field[1]), where(bad), 'the value of %s in %s() is used by `%s`, not only as a branch condition' % (field[1], f.name, bad.op)); continue
            region = controlled_region(prog, f, brs)
            allowed = readers[f.name].get('allow') if isinstance(readers.get(f.name), dict) else None
            eff = effects(prog, f, region)
            if allowed: eff = [(i, d) for i, d in eff if not allowed(prog, f, i)]
            if eff:
                i, d = eff[0]
                rep.fail(rule, key(rule, f, 'effect-%s' % field[1]), where(i), 'code controlled by %s in %s() %s: %s' % (field[1], f.name, d, what))
            else:
                rep.ok(rule, '%s reads %s@%s: controls %d instructions, effects: %s' % (f.name, field[1], x.line, len(region),
                       'the reviewed ones of this reader, else stderr / own locals only' if allowed else 'stderr / own locals only'))
    return n

NOWARN_READERS = {'line_warning': 'the warning printer', 'flexend': 'the -v statistics printer'}

def r1(prog, rep, readers=NOWARN_READERS):
    return who_reads(prog, rep, 'C17.R1', ('env_bundle_t', 'nowarn'), readers, '-w must change nothing but stderr')

# ================================================================ R2

def elem_index(fn, ptr, res):
    """index value of a g[idx] access: ptr = gep(load @g, idx) -> idx"""
    d = fn.def_of(flow.strip_casts(fn, ptr))
    if d is None or d.op != 'getelementptr' or len(d.ops) != 2: return None
    return d.ops[1]

def idx_loc(fn, v, res):
    """location whose loaded value is the index (through sext), or None"""
    d = fn.def_of(flow.int_origin(fn, v))
    if d is None or d.op != 'load': return None
    return res.loc(d.ops[0])

def controlling(prog, fn, ins, res):
    """{location class: [(branch, label taken)]} for the branch conditions that control ins (plain CFG)"""
    cfg = prog.cfg(fn, cut=False); out = {}
    for br, t in cfg.control_deps_closure(ins.blk):
        if not br.ops: continue
        for d in flow.value_slice(fn, br.ops[0]):
            if d.op == 'load': out.setdefault(cls(prog, res.loc(d.ops[0])), []).append((br, t))
    return out

RU = ('deref', ('global', 'rule_useful'))

def r2(prog, rep, anchors=True):
    n = 0
    # ---- (a) writers
    for f in fns(prog):
        res = Resolver(f)
        for x in f.ins:
            if x.op != 'store': continue
            l = res.loc(x.ops[1])
            if l == ('global', 'rule_useful'):
                n += 1
                if f.name in ('set_up_initial_allocations', 'new_rule'): rep.ok('C17.R2', 'rule_useful (re)allocated in %s@%s' % (f.name, x.line))
                else: rep.fail('C17.R2', key('C17.R2', f, 'rule_useful-pointer'), where(x), '%s() replaces the rule_useful array' % f.name)
            elif is_elem_of_global(l, 'rule_useful'):
                n += 1
                v = x.ops[0]
                if v == ('int', 0) and f.name == 'new_rule': rep.ok('C17.R2', 'rule_useful[] = false in new_rule@%s' % x.line)
                elif v[0] == 'int' and v[1] != 0 and f.name == 'snstods': rep.ok('C17.R2', 'rule_useful[] = true in snstods@%s' % x.line)
                else:
                    rep.fail('C17.R2', key('C17.R2', f, 'rule_useful-store'), where(x), '%s() writes rule_useful[] (%s); only new_rule() may clear an entry and only snstods() may set one - '
                             'otherwise "rule cannot be matched" is printed for a rule the DFA selects, or suppressed for one it never selects' % (f.name, 'constant %s' % v[1] if v[0] == 'int' else 'a computed value'))
    # ---- (b) new_rule clears the entry of the rule it creates, on every path
    nr = prog.fn('new_rule')
    if nr is None:
        if anchors: rep.broken('C17.R2: new_rule() not found')
    else:
        res = Resolver(nr); cfg = prog.cfg(nr)
        st = [x for x in nr.ins if x.op == 'store' and is_elem_of_global(res.loc(x.ops[1]), 'rule_useful') and x.ops[0] == ('int', 0)
              and idx_loc(nr, elem_index(nr, x.ops[1], res) or ('int', 0), res) == ('global', 'num_rules')]
        n += 1
        if st and not any(y.op == 'ret' for y in cfg.reach_from_block(nr.entry, avoid=st)):
            rep.ok('C17.R2', 'new_rule: rule_useful[num_rules] = false @%s on every returning path' % st[0].line)
        else:
            rep.fail('C17.R2', key('C17.R2', nr, 'clear'), fwhere(nr), 'new_rule() can return without clearing rule_useful[num_rules]: the entry keeps whatever the heap held, '
                     'so the warning for the new rule depends on uninitialised memory')
    # ---- (c) the two warnings in flex_main
    fm = prog.fn('flex_main')
    if fm is None:
        if anchors: rep.broken('C17.R2: flex_main() not found')
        return n
    res = Resolver(fm); cfg = prog.cfg(fm)
    ntod = [x for x in fm.ins if x.op == 'call' and x.callee == 'ntod']
    warns = [x for x in fm.ins if x.op == 'call' and x.callee == 'line_warning']
    w1 = [x for x in warns if (const_str(fm, x.ops[0]) or '').startswith('rule cannot be matched')]
    w2 = [x for x in warns if '-s option given' in (const_str(fm, x.ops[0]) or '')]
    if anchors:
        rep.require(len(ntod) == 1, 'C17.R2: flex_main() calls ntod() %d times' % len(ntod))
        rep.require(len(w1) >= 1, 'C17.R2: the "rule cannot be matched" warning was not found in flex_main()')
        rep.require(len(w2) >= 1, 'C17.R2: the "-s option given but default rule can be matched" warning was not found in flex_main()')
    for w in w1:
        n += 1
        kk = key('C17.R2', fm, 'warn-unmatched')
        problems = unmatched_loop_problems(prog, fm, w, ntod[0] if ntod else None, res, cfg)
        if problems: rep.fail('C17.R2', kk, where(w), 'the "rule cannot be matched" warning: ' + '; '.join(problems))
        else: rep.ok('C17.R2', 'flex_main: "rule cannot be matched"@%s issued for every i in 1..num_rules with !rule_useful[i] && i != default_rule, after ntod()' % w.line)
    for w in w2:
        n += 1
        kk = key('C17.R2', fm, 'warn-default')
        problems = []
        if ntod and not cfg.ins_dominates(ntod[0], w): problems.append('it is not dominated by ntod(), so rule_useful[] is not final')
        ctl = controlling(prog, fm, w, res)
        extra = set(ctl) - {('field', 'ctrl_bundle_t', 'spprdflt'), ('global', 'reject'), RU, ('global', 'rule_useful'), ('global', 'default_rule'), ('local', 'exit_status')}
        if extra: problems.append('it additionally depends on %s' % ', '.join(sorted(map(str, extra))))
        for need in (('field', 'ctrl_bundle_t', 'spprdflt'), ('global', 'reject'), RU):
            if need not in ctl: problems.append('it does not depend on %s' % str(need))
        # polarity and index of the rule_useful test
        for br, t in ctl.get(RU, []):
            te = truth_edges(fm, br)
            ld = [d for d in flow.value_slice(fm, br.ops[0]) if d.op == 'load' and cls(prog, res.loc(d.ops[0])) == RU]
            if te is None or t is not fm.bmap[te[1]]: problems.append('it is issued when rule_useful[default_rule] is false')
            if ld and idx_loc(fm, elem_index(fm, ld[0].ops[0], res), res) != ('global', 'default_rule'): problems.append('the entry tested is not rule_useful[default_rule]')
        for need, want_nonzero in ((('field', 'ctrl_bundle_t', 'spprdflt'), True), (('global', 'reject'), False)):
            for br, t in ctl.get(need, []):
                te = truth_edges(fm, br)
                if te is None or (t is fm.bmap[te[1]]) != want_nonzero: problems.append('wrong polarity of the %s test' % need[-1])
        if problems: rep.fail('C17.R2', kk, where(w), 'the "-s ... default rule can be matched" warning: ' + '; '.join(sorted(set(problems))))
        else: rep.ok('C17.R2', 'flex_main: -s warning@%s depends exactly on ctrl.spprdflt && !reject && rule_useful[default_rule], after ntod()' % w.line)
    return n

def unmatched_loop_problems(prog, fm, w, ntod, res, cfg):
    problems = []
    if ntod is not None and not cfg.ins_dominates(ntod, w): problems.append('it is not dominated by ntod(), so rule_useful[] is not final')
    ctl = controlling(prog, fm, w, res)
    # the loop variable: the local that indexes rule_useful in a controlling test
    ru_tests = ctl.get(RU, [])
    if not ru_tests: return problems + ['it does not depend on rule_useful[]']
    ivar = None
    for br, t in ru_tests:
        ld = [d for d in flow.value_slice(fm, br.ops[0]) if d.op == 'load' and cls(prog, res.loc(d.ops[0])) == RU]
        if not ld: continue
        ivar = idx_loc(fm, elem_index(fm, ld[0].ops[0], res), res)
        te = truth_edges(fm, br)
        if te is None or t is not fm.bmap[te[2]]: problems.append('it is issued when rule_useful[i] is true')
    if ivar is None or ivar[0] != 'local': return problems + ['rule_useful[] is not indexed by the loop variable']
    allowed = {ivar, ('global', 'num_rules'), RU, ('global', 'rule_useful'), ('global', 'default_rule'), ('local', 'exit_status')}
    extra = set(ctl) - allowed
    if extra: problems.append('it additionally depends on %s' % ', '.join(sorted(map(str, extra))))
    # reported line: rule_linenum[i]
    a1 = fm.def_of(flow.int_origin(fm, w.ops[1]))
    if a1 is None or a1.op != 'load' or not is_elem_of_global(res.loc(a1.ops[0]), 'rule_linenum') or idx_loc(fm, elem_index(fm, a1.ops[0], res), res) != ivar:
        problems.append('the line reported is not rule_linenum[i]')
    # i != default_rule test
    dr = [(br, t) for br, t in ctl.get(('global', 'default_rule'), [])]
    if not dr: problems.append('the default rule is not excluded (i != default_rule)')
    for br, t in dr:
        be = branch_edges(fm, br)
        if be is None or be[0].pred not in ('ne', 'eq'): problems.append('unexpected default_rule test'); continue
        locs = {idx_loc(fm, o, res) for o in be[0].ops}
        if locs != {ivar, ('global', 'default_rule')}: problems.append('the default_rule test does not compare the loop variable')
        ne_label = be[1] if be[0].pred == 'ne' else be[2]
        if t is not fm.bmap[ne_label]: problems.append('wrong polarity of the default_rule test')
    # loop header: i <= num_rules, init 1, step +1
    hdr = [(br, t) for br, t in ctl.get(('global', 'num_rules'), [])]
    if not hdr: return problems + ['the loop is not bounded by num_rules']
    br, t = hdr[0]
    be = branch_edges(fm, br)
    ok_hdr = False
    if be is not None:
        ic = be[0]
        l0, l1 = idx_loc(fm, ic.ops[0], res), idx_loc(fm, ic.ops[1], res)
        inc0 = lin(fm, ic.ops[0], res); inc1 = lin(fm, ic.ops[1], res)
        if (l0, l1) == (ivar, ('global', 'num_rules')) and ic.pred == 'sle' and t is fm.bmap[be[1]]: ok_hdr = True
        if (l0, l1) == (('global', 'num_rules'), ivar) and ic.pred == 'sge' and t is fm.bmap[be[1]]: ok_hdr = True
        # i < num_rules + 1
        if not ok_hdr and ic.pred == 'slt' and inc0 is not None and inc1 is not None and t is fm.bmap[be[1]]:
            if inc0 == {('load', ivar): 1} and inc1 == {('load', ('global', 'num_rules')): 1, 1: 1}: ok_hdr = True
    if not ok_hdr: problems.append('the loop condition is not i <= num_rules')
    # stores to i: the one entering the loop is the constant 1; the ones inside the loop add 1
    loop_blocks = {x.blk for x in cfg.reach_from_block(t)} & {b for b in fm.blocks if br in cfg.reach_from_block(b)} | {br.blk}
    for s in fm.ins:
        if s.op != 'store' or res.loc(s.ops[1]) != ivar: continue
        if s.blk in loop_blocks:
            li = lin(fm, s.ops[0], res)
            if li != {('load', ivar): 1, 1: 1}: problems.append('the loop variable is changed by something other than ++i inside the loop (@%s)' % s.line)
        elif br in cfg.reach(s, avoid=[y for y in fm.ins if y.op == 'store' and y is not s and res.loc(y.ops[1]) == ivar]):
            if s.ops[0] != ('int', 1): problems.append('the loop starts at %s instead of 1' % (s.ops[0][1] if s.ops[0][0] == 'int' else 'a computed value'))
    return sorted(set(problems))

# ================================================================ controls / driver

def controls(ctx):
    p = selftest_program(ctx, 'c17_controls.c')
    c = Collect(); r1(p, c, readers={'line_warning': 'x', 'flexend': 'x', 'leaky_printer': 'x', 'escaping_reader': 'x'})
    expect_control(ctx, 'C17.R1', c, ['leaky_printer:effect-nowarn', 'escaping_reader:escapes-nowarn', 'flexend:effect-nowarn'], must_hold=1)
    c = Collect(); r2(p, c, anchors=False)
    expect_control(ctx, 'C17.R2', c, ['meddler:rule_useful-store', 'new_rule:clear', 'flex_main:warn-unmatched', 'flex_main:warn-default'], must_hold=1)

# ================================================================ R4

def r4(ctx):
    """R4: selecting the option changes nothing but the warning switch.  The command-line case of -w/--nowarn in flexinit()
    and the %option nowarn / warn action of scan.l are evaluated on the IR (every path, symbolic branches forked): the only
    option state they may store is env.nowarn, and they may call nothing that selects a back end or a case mode."""
    import c19, lex
    rep = ctx.rep; prog = ctx.flex
    fi = prog.fn('flexinit'); fs = prog.fn('flexscan')
    if fi is None or fs is None: rep.broken('C17.R4: flexinit / flexscan not found')
    sw = max([x for x in fi.ins if x.op == 'switch'], key=lambda x: len(x.cases))
    tblv = c19.flexopts_table(prog)
    if not tblv: rep.broken('C17.R4: flexopts[] not readable')
    flags = sorted({f for s_, f in tblv if s_ in ('-w', '--nowarn')})
    if not flags: rep.broken('C17.R4: flexopts[] has no -w / --nowarn entry')
    n = 0
    def judge(eff, what, wherestr, key):
        extra = {k: v for k, v in (eff or {}).items() if k != '@env.nowarn'}
        if eff is None: rep.broken('C17.R4: %s not evaluable' % what)
        if '@env.nowarn' not in eff:
            rep.fail('C17.R4', key + ':no-effect', wherestr, '%s does not store env.nowarn' % what)
        elif extra:
            rep.fail('C17.R4', key + ':other-option-state', wherestr, '%s also changes %s: suppressing warnings changes the generated scanner' % (what, ', '.join('%s=%s' % kv for kv in sorted(extra.items()))),
                     replay_input='flex -w x.l  versus  flex x.l: compare the generated files')
        else:
            rep.ok('C17.R4', '%s stores only env.nowarn' % what)
    for fl in flags:
        n += 1
        judge(c19.cli_effects(prog, fi, sw, fl), 'the command-line case of -w/--nowarn in flexinit()', 'main.c (flexinit)', 'C17.R4:main.c:flexinit:nowarn')
    sp = lex.parse_spec(ctx.art.source('scan.l'))
    for word in ('warn', 'nowarn'):
        hit = None
        for r in sp.rules:
            if r.scs == ['OPTION'] and not r.is_eof and r.pat == 'warn': hit = r
        if hit is None: rep.broken('C17.R4: scan.l has no <OPTION>warn rule')
        n += 1
        judge(c19.option_action_effects(prog, fs, hit, word == 'warn', sp), 'the %%option %s action of scan.l' % word, 'scan.l:%d' % hit.line, 'C17.R4:scan.l:OPTION:%s' % word)
    return n

def run(ctx):
    rep = ctx.rep; prog = ctx.flex
    rep.require(len(prog.modules) >= 20, 'only %d translation units of flex were compiled to IR' % len(prog.modules))
    for a in ('line_warning', 'flexend', 'flex_main', 'new_rule', 'snstods', 'ntod'):
        rep.require(prog.fn(a) is not None, 'anchored function %s() not found in flex' % a)
    controls(ctx)
    n1 = r1(prog, rep)
    n2 = r2(prog, rep)
    r4(ctx)
    import c07
    c07.r7_case(ctx, 'C17.R5')      # REJECT mis-detection disables the unmatched-rule warnings: the case tests behind the detection
    rep.setcount('translation_units', len(prog.modules)); rep.setcount('functions_analysed', len(fns(prog)))
    rep.setcount('readers_of_env_nowarn', n1); rep.setcount('rule_useful_instances', n2)
    rep.floor('C17.R1', 2, 'env.nowarn is read in line_warning() and flexend()')
    rep.floor('C17.R5', 2, 'all_upper, all_lower')
    rep.floor('C17.R4', 3, 'command-line case + %option warn / nowarn')
    rep.floor('C17.R2', 8, '2 pointer stores, 3 element stores, new_rule clear, 2 warnings')
    rep.undecided += ['that flex warns exactly for the rules no input can select (correctness of the subset construction and of snstods\' choice)',
                      'REJECT / variable trailing context: only "no false warning" is promised by flex and not even that is decided here',
                      'that the generated scanner is byte-identical with and without -w beyond the effect summary of the two readers']
    rep.assumptions += ['clang -O0 IR of flex as built by the repository\'s own make', 'stderr is not redirected into an output file by the user',
                        'effect summaries treat libc functions not listed as effectful (so an unknown callee is a violation, not a pass)']
    import c17_tbl
    rep.setcount('warning_probe_rules', c17_tbl.run(ctx, rep))
    rep.floor('C17.R3', 100, 'rules of 4 warning probes x 4 option sets')
    return rep.finish('other',
        'Who-reads rule over all %d functions of flex for env.nowarn with an interprocedural effect summary (stores outside the function\'s own '
        'locals, streams other than stderr, unknown callees) of everything control dependent on the loaded value; def/use census of '
        'rule_useful[] (constant stored, function); structural check of the warning loop in flex_main (control dependences, loop bounds, '
        'polarity, reported line, dominance by ntod()).' % len(fns(prog)))
