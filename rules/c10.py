"""C10 - end of input: yywrap, EOF actions, restart.

R1  yywrap is consulted.  In yylex every path from the end-of-file arm of the refill switch reaches the yywrap call before
    it returns, refills again or assigns an EOF action number; the EOF action number (YY_END_OF_BUFFER + yystart() + 1) is
    assigned only behind the non-zero edge of that call.  In yyinput every path from the end-of-file arm to a return
    passes yywrap, and the constant (end-of-input) return is reachable only through its non-zero edge.
    noyywrap variants of the cpp skeleton expand yywrap() to the constant 1: recorded as vacuous.
R3  EOF arms are exhaustive.  Generator: sceof[] is written only by scinstal (false) and build_eof_action (true); the
    store of true is followed on every path by add_action of a text formatted from "M4_HOOK_EOF_STATE_CASE_ARM(%s)" with
    scname[] of the same index; the generator's final loop emits an arm for i = 1..lastsc exactly under !sceof[i].
    Scanner: the action switch of every variant has a case for YY_END_OF_BUFFER + sc + 1 for every start condition of the probe.
R4  a new source starts at the beginning of a line: yy_init_buffer passes its buffer to yy_flush_buffer on every path, and
    yyrestart passes the current buffer to yy_init_buffer on every path (yy_flush_buffer's own store is C06.R2 / C11.R4).
R5  a buffer installed during yywrap is noticed.  yyrestart, yy_switch_to_buffer, yypush_buffer_state and
    yypop_buffer_state store a non-zero constant to yy_did_buffer_switch_on_eof on every path from the point where they
    change the current buffer to their return (paths on which no buffer remains excepted); yylex clears the flag between
    the refill and the yywrap call with no call in between, and on the zero edge of yywrap restarts on yyin exactly when the
    flag is still clear.
R9  a buffer without an input file is never fillable and a buffer that is not fillable is never read into: every store to
    yy_fill_buffer is 0, or non-zero under (or equal to) a test that the buffer's input file is non-null; yy_scan_buffer
    stores 0 on every path that returns the buffer; yy_get_next_buffer reads only behind yy_fill_buffer != 0.
R10 the operator of the "really a NUL" comparison yy_c_buf_p ~ &yy_ch_buf[yy_n_chars] fits the distance of the pointer from
    the byte at that point (derived from where yy_get_next_buffer expects the byte and from the advance of the pointer
    between the comparison and the call): evaluated for all small positions, it refills exactly for position >= yy_n_chars.
"""
import re
import ir, flow, variants
from common import where, fwhere
import scanner_ids as S
from scanner_ids import scanner
from c05 import Cases, loop_over_conditions, esig, array_elem, action_switch, eob_constant, eof_action_stores, eof_action_stores_deep, stores_of, loads_of, copies_of

# ---------------------------------------------------------------- shared scanner facts

def constant_yywrap(sc):
    """cpp skeleton, C scanners: %option noyywrap (implied by %option main) defines yywrap() as the constant 1"""
    return sc.backend in ('nr', 'r') and ('noyywrap' in sc.v.options or 'main' in sc.v.options)

def big_yylex(sc):
    fs = [f for f in sc.fns('yylex') if len(f.blocks) > 20]
    return fs[0] if fs else None

def eof_code(sc):
    """value yy_get_next_buffer returns for end of file: the constant it records next to its call of yyrestart"""
    g = sc.fn('yy_get_next_buffer')
    if g is None: return None
    for c in sc.calls(g, 'yyrestart'):
        for x in c.blk.ins:
            if x.op == 'store' and x.ops[0][0] == 'int':
                d = g.def_of(x.ops[1])
                if d is not None and d.op == 'alloca': return x.ops[0][1]
    return None

def refill_switches(sc, fn):
    """switch instructions over the result of yy_get_next_buffer: list of (switch, call)"""
    out = []
    for sw in fn.ins:
        if sw.op != 'switch': continue
        d = fn.def_of(S.strip_ext(fn, sw.ops[0]))
        if d is not None and d.op in ('call', 'invoke') and sc.callee(d) == 'yy_get_next_buffer': out.append((sw, d))
    return out

def wrap_edges(sc, fn, w):
    """(branch, nonzero target, zero target) for the test of the result of yywrap call w (directly or kept in a local)"""
    vals = copies_of(fn, w.res)
    for b in fn.blocks:
        br = b.ins[-1]
        if br.op != 'br' or not br.ops: continue
        for t in br.targets:
            con = S.edge_constraint(fn, br, t)
            if con is None or con[2] != ('int', 0) or con[0] not in ('ne', 'eq'): continue
            a = S.strip_ext(fn, con[1])
            if a[0] == 'reg' and a[1] in vals:
                other = [z for z in br.targets if z != t][0]
                return (br, t, other) if con[0] == 'ne' else (br, other, t)
    return None

# ---------------------------------------------------------------- R1

def r1(ctx, sc):
    rep = ctx.rep; v = sc.v; n = 0
    EOFC = eof_code(sc)
    if EOFC is None: rep.broken('C10.R1: cannot read the end-of-file code from yy_get_next_buffer of %s' % v.name)
    for canon in ('yylex', 'yyinput'):
        f = big_yylex(sc) if canon == 'yylex' else sc.fn('yyinput')
        if f is None: continue
        cfg = sc.prog.cfg(f)
        rs = refill_switches(sc, f)
        if len(rs) != 1: rep.broken('C10.R1: %s of %s has %d switches over yy_get_next_buffer(), expected 1' % (canon, v.name, len(rs)))
        sw, gnb = rs[0]
        arm = [l for c, l in sw.cases if c == EOFC]
        if not arm: rep.broken('C10.R1: no end-of-file arm in the refill switch of %s (%s)' % (canon, v.name))
        armb = f.bmap[arm[0]]
        ws = sc.calls(f, 'yywrap')
        n += 1
        key = sc.key('C10.R1', canon, 'yywrap')
        if canon == 'yylex':
            Es = [x for _, x in eof_action_stores_deep(sc, f)]      # (also when the start state is kept in a local first)
            if not Es: rep.broken('C10.R1: EOF action assignment not found in yylex of %s' % v.name)
            E = Es[0]
        if not ws:
            if constant_yywrap(sc):
                rep.vacuous.append('C10.R1 %s %s: %%option noyywrap expands yywrap() to the constant 1, no call to consult' % (v.name, canon))
                # still: the EOF action is assigned only in the end-of-file arm
                if canon == 'yylex' and not all(sc.prog.cfg(f, cut=False).dominates(armb, e.blk) for e in Es):
                    rep.fail('C10.R1', sc.key('C10.R1', canon, 'eof-action-outside-arm'), where(E), 'the EOF action number is assigned outside the end-of-file arm [variant %s]' % v.name, variant=v.describe())
                else:
                    rep.ok('C10.R1', '%s %s: noyywrap (constant 1): EOF handling confined to the end-of-file arm' % (v.name, canon))
                continue
            rep.fail('C10.R1', key, where(sw), '%s handles end of file without calling yywrap [variant %s]' % (canon, v.name), variant=v.describe()); continue
        if canon == 'yylex':
            outside = [e for e in Es if not sc.prog.cfg(f, cut=False).dominates(armb, e.blk)]
            if outside:
                rep.fail('C10.R1', sc.key('C10.R1', canon, 'eof-action-outside-arm'), where(outside[0]), 'an EOF action number is assigned outside the end-of-file arm of the refill switch [variant %s]' % v.name, variant=v.describe()); continue
        r_ = cfg.reach_from_block(armb, avoid=ws)
        leak = [y for y in r_ if y.op == 'ret' or y is gnb or (canon == 'yylex' and y in Es)]
        if leak:
            rep.fail('C10.R1', key, where(leak[0]), 'in %s the end-of-file arm can %s without consulting yywrap [variant %s]' % (
                canon, 'assign the EOF action' if canon == 'yylex' and leak[0] in Es else 'return' if leak[0].op == 'ret' else 'refill again', v.name),
                witness=['%s:%s' % (i.blk.name, i.line) for i in (cfg.path(armb.ins[0], lambda y: y is leak[0], avoid=ws, include_start=True) or [])], variant=v.describe()); continue
        bad = None
        for w in ws:
            we = wrap_edges(sc, f, w)
            if we is None: bad = (w, 'the result of yywrap is not tested'); break
            br, nz, z = we
            zr = cfg.reach_from_block(f.bmap[z], avoid=ws + [gnb])
            if canon == 'yylex':
                if any(e in zr for e in Es): bad = (br, 'the EOF action is assigned although yywrap returned 0 (more input was promised)'); break
                if not any(e in cfg.reach_from_block(f.bmap[nz], avoid=ws + [gnb]) for e in Es): bad = (br, 'a non-zero yywrap does not lead to the EOF action'); break
            else:
                const_rets = [y for y in f.ins if y.op == 'store' and y.ops[1] == ('reg', 'retval') and y.ops[0][0] == 'int']
                const_rets += [y for y in f.ins if y.op == 'ret' and y.ops and y.ops[0][0] == 'int']
                if not const_rets: bad = (w, 'yyinput has no end-of-input return'); break
                if any(y in zr for y in const_rets): bad = (br, 'yyinput returns end-of-input although yywrap returned 0'); break
                if not any(y in cfg.reach_from_block(f.bmap[nz], avoid=ws + [gnb]) for y in const_rets): bad = (br, 'a non-zero yywrap does not lead to the end-of-input return'); break
                for y in const_rets:
                    if y in S.entry_reach(cfg, f, avoid=ws): bad = (y, 'yyinput can return end-of-input without having called yywrap'); break
                if bad: break
        if bad: rep.fail('C10.R1', key, where(bad[0]), '%s: %s [variant %s]' % (canon, bad[1], v.name), variant=v.describe())
        else: rep.ok('C10.R1', '%s %s: end-of-file arm (code %d) must pass yywrap@%s; %s only behind its non-zero edge' % (
            v.name, canon, EOFC, ws[0].line, 'EOF action' if canon == 'yylex' else 'end-of-input return'))
    return n

# ---------------------------------------------------------------- R3

ARM = 'M4_HOOK_EOF_STATE_CASE_ARM(%s)'

def r3_generator(ctx):
    rep = ctx.rep; P = ctx.flex; n = 0
    # (a) who writes sceof[k]
    writers = {}
    for f in set(P.functions.values()):
        for x in f.ins:
            if x.op == 'store' and array_elem(f, x.ops[1], 'sceof') is not None: writers.setdefault(f.name, []).append(x)
    want = {'scinstal': 0, 'build_eof_action': 1}
    for fn_, st in sorted(writers.items()):
        n += 1
        for x in st:
            if fn_ not in want or x.ops[0] != ('int', want[fn_]):
                rep.fail('C10.R3', 'C10.R3:%s:%s:writes-sceof' % (x.loc[0], fn_), where(x), '%s stores %s into sceof[]; only scinstal (false) and build_eof_action (true) may' % (fn_, x.ops[0])); break
        else:
            rep.ok('C10.R3', '%s: sceof[k] = %d (%d store)' % (fn_, want[fn_], len(st)))
    for fn_ in want:
        if fn_ not in writers: rep.broken('C10.R3: %s no longer stores sceof[]' % fn_)
    # (b) build_eof_action: the store of true is paired with the arm for the same condition
    f = P.fn('build_eof_action'); cfg = P.cfg(f)
    n += 1
    key = 'C10.R3:parse.y:build_eof_action:arm'
    for x in writers['build_eof_action']:
        isig = esig(f, array_elem(f, x.ops[1], 'sceof'))
        fmts = [c for c in f.ins if c.op == 'call' and c.callee in ('snprintf', 'sprintf', '__snprintf_chk') and any(flow.const_arg(f, a) is not None and ARM in str(flow.const_arg(f, a)) for a in c.ops)]
        adds = []
        for c in fmts:
            buf = esig(f, c.ops[0])
            names = [a for a in c.ops if esig(f, a)[0] == 'ld' and esig(f, a)[1][0] == 'gep' and esig(f, a)[1][1] == ('ld', ('g', 'scname'))]
            same = [a for a in names if esig(f, a)[1][2] == isig]
            if not same: continue
            for a_ in f.ins:
                if a_.op == 'call' and a_.callee == 'add_action' and esig(f, a_.ops[0]) == buf and a_ in cfg.reach(c): adds.append((c, a_))
        if not adds:
            rep.fail('C10.R3', key, where(x), 'build_eof_action marks a start condition as having an EOF rule without emitting ' + ARM + ' for scname[] of the same condition'); break
        ok = any(cfg.postdominated_by(x, [c]) and not any(y.op == 'ret' for y in cfg.reach(c, avoid=[a_])) for c, a_ in adds)
        if not ok:
            rep.fail('C10.R3', key, where(x), 'after sceof[k] = true some path skips the emission of the EOF case arm for k'); break
    else:
        rep.ok('C10.R3', 'build_eof_action: sceof[scon_stk[i]] = true is followed on every path by add_action("%s", scname[scon_stk[i]])' % ARM)
    # (c) arms for conditions without an EOF rule
    n += 1
    emit = []
    for g in set(P.functions.values()):
        for c in g.ins:
            if c.op == 'call' and c.callee in ('out_str', 'out_str_dec', 'out_str3') and c.ops and flow.const_arg(g, c.ops[0]) is not None and ARM in str(flow.const_arg(g, c.ops[0])): emit.append(c)
    if len(emit) != 1: rep.broken('C10.R3: expected one out_str("%s") in the generator, found %d' % (ARM, len(emit)))
    c = emit[0]; g = c.fn; gc = P.cfg(g, cut=False)
    key = 'C10.R3:%s:%s:missing-arms' % (c.loc[0], g.name)
    nm = esig(g, c.ops[1])
    if not (nm[0] == 'ld' and nm[1][0] == 'gep' and nm[1][1] == ('ld', ('g', 'scname'))):
        rep.fail('C10.R3', key, where(c), 'the arm for a start condition without EOF rule is not emitted with scname[i]')
    else:
        isig = nm[1][2]
        guard = bound = False; extra = []
        loophead = None
        for br, t in gc.control_deps_closure(c.blk):
            con = S.edge_constraint(g, br, t.name)
            if con is None: continue
            a, b = esig(g, con[1]), esig(g, con[2])
            sa = esig(g, S.strip_ext(g, con[1]))
            if con[0] == 'eq' and b == ('c', 0) and sa[0] == 'ld' and sa[1][0] == 'gep' and sa[1][1] == ('ld', ('g', 'sceof')) and sa[1][2] == isig: guard = True
            elif con[0] == 'sle' and a == isig and b == ('ld', ('g', 'lastsc')): bound = True; loophead = br
            elif sa == isig or a == isig or b == isig or 'sceof' in str(a) or 'scxclu' in str(a): extra.append(con[0])
        init = [y for y in g.ins if y.op == 'store' and isig[0] == 'ld' and esig(g, y.ops[1]) == isig[1] and y.ops[0][0] == 'int' and loophead is not None and gc.dominates(y.blk, loophead.blk) and y.blk is not loophead.blk]
        # the initialisation that reaches the loop: the last dominating constant store
        init = [y for y in init if not any(z is not y and gc.dominates(y.blk, z.blk) and (z.blk is not y.blk or z.idx > y.idx) for z in init)]
        if not guard: rep.fail('C10.R3', key, where(c), 'the EOF arm for start condition i is not emitted exactly under !sceof[i]')
        elif not bound or not init or init[0].ops[0] != ('int', 1): rep.fail('C10.R3', key, where(c), 'the loop that emits the missing EOF arms does not run i = 1 .. lastsc')
        elif extra: rep.fail('C10.R3', key, where(c), 'the loop that emits the missing EOF arms has an additional condition on i')
        else: rep.ok('C10.R3', '%s:%s %s: for i = 1..lastsc, !sceof[i] -> %s with scname[i]' % (c.loc[0], c.line, g.name, ARM))
    return n

def r3_unqualified(ctx):
    """parse.y, <<EOF>> without a <..> list: the loop that selects the start conditions for the action runs i = 1..lastsc and
    selects i exactly when !sceof[i] - inclusive and exclusive conditions alike (no other per-condition test)."""
    rep = ctx.rep; P = ctx.flex
    f = P.fn('yyparse')
    if f is None: rep.broken('C10.R3: yyparse not found')
    cs = Cases(P, f)
    cands = []
    for x in f.ins:
        if x.op != 'store' or array_elem(f, x.ops[1], 'scon_stk') is None: continue
        label = cs.label_of(x.blk)
        if label is None: continue
        vs_ = esig(f, x.ops[0])
        if vs_[0] != 'ld': continue
        # pushes its own loop variable ...
        if not any(y.op == 'store' and esig(f, y.ops[1]) == vs_[1] and esig(f, y.ops[0]) in (('add', vs_, ('c', 1)), ('add', ('c', 1), vs_)) for y in cs.ins(label)): continue
        # ... in the action that goes on to build_eof_action()
        if not any(y.op == 'call' and y.callee == 'build_eof_action' for y in cs.ins(label)): continue
        cands.append((x, label, vs_))
    if len(cands) != 1: rep.broken('C10.R3: expected one loop that pushes start conditions for an unqualified <<EOF>>, found %d' % len(cands))
    x, label, vs_ = cands[0]
    key = 'C10.R3:parse.y:unqualified-eof:scon_stk'
    why = loop_over_conditions(cs, label, x.blk, vs_)
    guard = False; extra = set()
    for br, t in cs.deps(label, x.blk):
        con = S.edge_constraint(f, br, t.name)
        for d in (flow.value_slice(f, br.ops[0]) if br.ops else []):
            if d.op != 'load': continue
            sg = esig(f, ('reg', d.res))
            if sg == vs_ or sg == ('ld', ('g', 'lastsc')) or sg == ('ld', ('g', 'scon_stk_ptr')): continue
            if sg[0] == 'ld' and sg[1][0] == 'gep' and sg[1][1] == ('ld', ('g', 'sceof')) and sg[1][2] == vs_:
                if con and con[0] == 'eq' and con[2] == ('int', 0) and S.strip_ext(f, con[1]) == ('reg', d.res): guard = True
                continue
            if sg[0] == 'ld' and sg[1][0] == 'gep' and sg[1][1][0] == 'ld': continue      # the base pointer load of an array element (reported through the element)
            extra.add(ir.loc_str(ir.Resolver(f).loc(d.ops[0])))
        # array elements other than sceof[i]
        for d in (flow.value_slice(f, br.ops[0]) if br.ops else []):
            if d.op == 'load':
                sg = esig(f, ('reg', d.res))
                if sg[0] == 'ld' and sg[1][0] == 'gep' and sg[1][1][0] == 'ld' and sg[1][1] != ('ld', ('g', 'sceof')): extra.add('%s[]' % (sg[1][1][1][1] if sg[1][1][1][0] == 'g' else '?'))
    extra = {e for e in extra if not e.startswith('@sceof') and e not in ('@scon_stk_ptr', '@lastsc')}
    if why: rep.fail('C10.R3', key + ':loop', where(x), '<<EOF>> without a start-condition list: %s' % why)
    elif not guard: rep.fail('C10.R3', key + ':guard', where(x), '<<EOF>> without a start-condition list does not select start condition i exactly under !sceof[i]')
    elif extra: rep.fail('C10.R3', key + ':extra-condition', where(x), '<<EOF>> without a start-condition list selects start condition i under an additional test of %s: '
                         'conditions without their own <<EOF>> rule (e.g. exclusive ones) would fall back to the default EOF action' % ', '.join(sorted(extra)),
                         replay_input='%x X\n%%\n<<EOF>> { return 7; }\n%%\n-- after yybegin(X), end of file must return 7')
    else: rep.ok('C10.R3', 'parse.y:%s unqualified <<EOF>>: scon_stk[++scon_stk_ptr] = i for i = 1..lastsc exactly under !sceof[i]' % x.line)
    return 1

def probe_conditions(v):
    """number of start conditions the probe declares (INITIAL included) - read from the probe text the machinery owns"""
    k = 1
    for ln in v.spec().split('\n'):
        if ln.startswith('%%'): break
        m = re.match(r'%[xs]\s+(.*)$', ln)
        if m: k += len(m.group(1).split())
    return k

def r3_scanner(ctx, sc):
    rep = ctx.rep; v = sc.v
    f = big_yylex(sc)
    if f is None: return 0
    sw = action_switch(f); EOB, E = eob_constant(sc, f)
    if sw is None or EOB is None: rep.broken('C10.R3: action switch / YY_END_OF_BUFFER not found in yylex of %s' % v.name)
    k = probe_conditions(v)
    have = {c for c, l in sw.cases}
    dflt = sw.callee
    n = 0
    for s_ in range(k):
        n += 1
        want = EOB + s_ + 1
        lab = [l for c, l in sw.cases if c == want]
        if want not in have or lab[0] == dflt:
            rep.fail('C10.R3', sc.key('C10.R3', 'yylex', 'eof-arm-missing'), where(sw),
                     'the action switch has no case for YY_END_OF_BUFFER + %d + 1 = %d: end of file in start condition %d reaches the "no action found" default [variant %s]' % (s_, want, s_, v.name), variant=v.describe())
        else:
            rep.ok('C10.R3', '%s yylex: case %d = YY_STATE_EOF(%d) present' % (v.name, want, s_))
    if max(have) > EOB + k:
        rep.fail('C10.R3', sc.key('C10.R3', 'yylex', 'eof-arm-extra'), where(sw), 'action switch has a case beyond the EOF arms of the %d declared start conditions [variant %s]' % (k, v.name), variant=v.describe())
    return n

# ---------------------------------------------------------------- R4

def r4(ctx, sc):
    rep = ctx.rep; v = sc.v; n = 0
    for f in sc.fns('yy_init_buffer'):
        n += 1
        cfg = sc.prog.cfg(f); res = ir.Resolver(f)
        p = f.params[1 if sc.backend == 'cxx' else 0][1]
        fl = [c for c in sc.calls(f, 'yy_flush_buffer')
              if any((lambda d: d is not None and d.op == 'load' and res.loc(d.ops[0]) == ('local', p + '.addr'))(f.def_of(flow.strip_casts(f, a))) for a in c.ops)]
        if not fl or any(y.op == 'ret' for y in S.entry_reach(cfg, f, avoid=fl)):
            rep.fail('C10.R4', sc.key('C10.R4', 'yy_init_buffer', 'flush'), fwhere(f), 'yy_init_buffer does not pass its buffer to yy_flush_buffer on every path: a new input source would not start at the beginning of a line [variant %s]' % v.name, variant=v.describe())
        else:
            rep.ok('C10.R4', '%s yy_init_buffer: yy_flush_buffer(b)@%s on every path' % (v.name, fl[0].line))
    for f in sc.fns('yyrestart'):
        cfg = sc.prog.cfg(f); res = ir.Resolver(f)
        direct = sc.calls(f, 'yy_init_buffer')
        fwd = [c for c in sc.calls(f, 'yyrestart')]
        if not direct and fwd: continue          # C++ overload that forwards to the other one
        n += 1
        good = [c for c in direct if any(S.is_current_value(sc, f, a, res) for a in c.ops)]
        if not good or any(y.op == 'ret' for y in S.entry_reach(cfg, f, avoid=good)):
            rep.fail('C10.R4', sc.key('C10.R4', 'yyrestart', 'init'), fwhere(f), 'yyrestart does not re-initialise the current buffer through yy_init_buffer on every path [variant %s]' % v.name, variant=v.describe())
        else:
            rep.ok('C10.R4', '%s yyrestart: yy_init_buffer(current, file)@%s on every path' % (v.name, good[0].line))
    return n

# ---------------------------------------------------------------- R5

API = ('yyrestart', 'yy_switch_to_buffer', 'yypush_buffer_state', 'yypop_buffer_state')

def r5(ctx, sc):
    rep = ctx.rep; v = sc.v; n = 0
    for canon in API:
        for f in sc.fns(canon):
            cfg = sc.prog.cfg(f); res = ir.Resolver(f)
            trig = [x for x in f.ins if x.op == 'store' and (sc.slot(res.loc(x.ops[1])) or sc.is_var(res.loc(x.ops[1]), 'yy_buffer_stack_top'))]
            trig += sc.calls(f, 'yy_init_buffer')
            if not trig:
                if sc.calls(f, canon): continue          # forwarding overload
                rep.broken('C10.R5: %s of %s neither stores the current-buffer slot nor calls yy_init_buffer' % (canon, v.name))
            n += 1
            sets = S.effect_sites(sc, f, lambda g, x, r: sc.is_var(r.loc(x.ops[1]), 'yy_did_buffer_switch_on_eof') and x.ops[0][0] == 'int' and x.ops[0][1] != 0, 'set-switch-flag')
            nulls = S.current_null_edges(sc, f)
            ef = lambda a, b: (a, b) not in nulls
            key = sc.key('C10.R5', canon, 'sets-flag')
            bad = None
            for t in trig:
                # null edges are removed only behind the trigger (they describe the state after the change)
                r_ = cfg.reach(t, avoid=sets, edge_filter=ef)
                rets = [y for y in r_ if y.op == 'ret']
                if rets: bad = (t, rets[0]); break
            if bad:
                t, r0 = bad
                rep.fail('C10.R5', key, where(t), '%s changes the current buffer and can return without setting yy_did_buffer_switch_on_eof: a buffer installed from yywrap() would be '
                         'overwritten by the YY_NEW_FILE restart [variant %s]' % (canon, v.name),
                         witness=['%s:%s' % (i.blk.name, i.line) for i in (cfg.path(t, lambda y: y is r0, avoid=sets, edge_filter=ef) or [])], variant=v.describe())
            else:
                rep.ok('C10.R5', '%s %s: %d change point(s) of the current buffer, each followed by yy_did_buffer_switch_on_eof = 1 on every path to return' % (v.name, canon, len(trig)))
    f = big_yylex(sc)
    if f is None: return n
    ws = sc.calls(f, 'yywrap')
    if not ws:
        if not constant_yywrap(sc):
            rep.fail('C10.R5', sc.key('C10.R5', 'yylex', 'clears-flag'), fwhere(f), 'yylex has no yywrap call to run the buffer-switch protocol around [variant %s]' % v.name, variant=v.describe())
            return n
        rep.vacuous.append('C10.R5 %s yylex: noyywrap constant, no flag protocol' % v.name)
        return n
    cfg = sc.prog.cfg(f); res = ir.Resolver(f)
    EOFC = eof_code(sc)
    sw, gnb = refill_switches(sc, f)[0]
    armb = f.bmap[[l for c, l in sw.cases if c == EOFC][0]]
    clears = [x for x in stores_of(sc, f, 'yy_did_buffer_switch_on_eof') if x.ops[0] == ('int', 0)]
    n += 1
    key = sc.key('C10.R5', 'yylex', 'clears-flag')
    w = ws[0]
    if w in cfg.reach_from_block(armb, avoid=clears):
        rep.fail('C10.R5', key, where(w), 'yylex can call yywrap without having cleared yy_did_buffer_switch_on_eof after the refill (the refill itself restarts the buffer and sets the flag) [variant %s]' % v.name, variant=v.describe())
    else:
        # calls on a path from a clearing store to the yywrap call that do not pass another clearing store
        between = [y for c in clears for y in cfg.reach(c, avoid=ws)
                   if y.op in ('call', 'invoke') and not (isinstance(y.callee, str) and y.callee.startswith('llvm.')) and w in cfg.reach(y, avoid=clears)]
        if between:
            rep.fail('C10.R5', key, where(between[0]), 'a call (%s) separates the clearing of yy_did_buffer_switch_on_eof from yywrap [variant %s]' % (sc.callee(between[0]), v.name), variant=v.describe())
        else:
            rep.ok('C10.R5', '%s yylex: flag cleared@%s immediately before yywrap@%s' % (v.name, clears[0].line, w.line))
    # zero edge: restart exactly when the flag is still clear
    n += 1
    key = sc.key('C10.R5', 'yylex', 'tests-flag')
    we = wrap_edges(sc, f, w)
    if we is None:
        rep.fail('C10.R5', key, where(w), 'result of yywrap is not tested [variant %s]' % v.name, variant=v.describe()); return n
    br, nz, z = we
    zr = cfg.reach_from_block(f.bmap[z], avoid=ws + [gnb, sw])
    rst = [y for y in zr if y.op in ('call', 'invoke') and sc.callee(y) == 'yyrestart']
    c0 = sc.prog.cfg(f, cut=False)
    good = False; why = 'the zero edge of yywrap never restarts on yyin (YY_NEW_FILE)'
    for y in rst:
        why = 'the restart on the zero edge of yywrap is not conditional on yy_did_buffer_switch_on_eof being clear'
        for b2, t in c0.control_deps(y.blk):
            con = S.edge_constraint(f, b2, t.name)
            if con is None: continue
            d = f.def_of(S.strip_ext(f, con[1]))
            if con[0] == 'eq' and con[2] == ('int', 0) and d is not None and d.op == 'load' and sc.is_var(res.loc(d.ops[0]), 'yy_did_buffer_switch_on_eof') and b2 in zr:
                good = True
    if good: rep.ok('C10.R5', '%s yylex: yywrap()==0 and flag clear -> yyrestart(yyin)@%s' % (v.name, rst[0].line))
    else: rep.fail('C10.R5', key, where(br), why + ' [variant %s]' % v.name, variant=v.describe())
    return n

# ---------------------------------------------------------------- R7

INPUT_CALLS = ('yyread', 'read', 'fread', 'getc', 'fgetc', '_IO_getc', 'LexerInput')

def status_constants(sc):
    """(NEW, EOF_PENDING) as the scanner reads them: the constant yylex compares yy_buffer_status with, and the one
    yy_get_next_buffer compares it with"""
    out = []
    for f in (big_yylex(sc), sc.fn('yy_get_next_buffer')):
        c = None
        if f is not None:
            res = ir.Resolver(f)
            for x in f.ins:
                if x.op == 'icmp' and x.pred in ('eq', 'ne'):
                    for val, k in ((x.ops[0], x.ops[1]), (x.ops[1], x.ops[0])):
                        d = f.def_of(S.strip_ext(f, val)) if k[0] == 'int' else None
                        if d is not None and d.op == 'load' and sc.is_buf(res.loc(d.ops[0]), 'yy_buffer_status'): c = k[1]
                    if c is not None: break
        out.append(c)
    return out

def r7(ctx, sc):
    """life cycle of yy_buffer_status: NEW (flush / scan_buffer) -> NORMAL (yylex, only when it finds NEW) -> EOF_PENDING
    (yy_get_next_buffer, which then stops reading); nothing else writes the field."""
    rep = ctx.rep; v = sc.v; n = 0
    if big_yylex(sc) is None: return 0
    NEW, PENDING = status_constants(sc)
    if NEW is None or PENDING is None or NEW == PENDING: rep.broken('C10.R7: cannot read YY_BUFFER_NEW / YY_BUFFER_EOF_PENDING from the comparisons in yylex / yy_get_next_buffer of %s' % v.name)
    CREATORS = ('yy_flush_buffer', 'yy_scan_buffer')
    for f in sc.mod.functions.values():
        res = ir.Resolver(f)
        st = [x for x in f.ins if x.op == 'store' and sc.is_buf(res.loc(x.ops[1]), 'yy_buffer_status')]
        if not st: continue
        c = sc.canon(f); c0 = sc.prog.cfg(f, cut=False)
        for x in st:
            n += 1
            val = x.ops[0]
            key = sc.key('C10.R7', c, 'status-store')
            if val[0] != 'int':
                rep.fail('C10.R7', key, where(x), '%s stores a computed value into yy_buffer_status [variant %s]' % (c, v.name), variant=v.describe()); continue
            k = val[1]
            if k == NEW:
                if c in CREATORS: rep.ok('C10.R7', '%s %s:%s status := NEW' % (v.name, c, x.line))
                else: rep.fail('C10.R7', key + ':new', where(x), '%s marks a buffer as new; only yy_flush_buffer and yy_scan_buffer (re)create buffer contents [variant %s]' % (c, v.name), variant=v.describe())
            elif k == PENDING:
                if c == 'yy_get_next_buffer' and sc.via_current(res.loc(x.ops[1]), f): rep.ok('C10.R7', '%s %s:%s status := EOF_PENDING (current buffer)' % (v.name, c, x.line))
                else: rep.fail('C10.R7', key + ':pending', where(x), '%s marks a buffer as having seen end of file; only yy_get_next_buffer may, for the current buffer [variant %s]' % (c, v.name), variant=v.describe())
            else:
                # NORMAL: only yylex, only for the current buffer, only on the edge where the same field was found to be NEW
                guarded = False
                for br, t in c0.control_deps(x.blk):
                    con = S.edge_constraint(f, br, t.name)
                    if con is None or con[0] != 'eq' or con[2] != ('int', NEW): continue
                    d = f.def_of(S.strip_ext(f, con[1]))
                    if d is not None and d.op == 'load' and sc.is_buf(res.loc(d.ops[0]), 'yy_buffer_status') and sc.via_current(res.loc(d.ops[0]), f): guarded = True
                if c != 'yylex' or not sc.via_current(res.loc(x.ops[1]), f):
                    rep.fail('C10.R7', key + ':normal', where(x), '%s sets yy_buffer_status to %d; only yylex moves the current buffer from NEW to NORMAL [variant %s]' % (c, k, v.name), variant=v.describe())
                elif not guarded:
                    rep.fail('C10.R7', key + ':normal-unguarded', where(x),
                             'yylex sets yy_buffer_status to %d (NORMAL) without having found it to be NEW (%d): an end-of-buffer action would wipe EOF_PENDING (%d), the end of input '
                             'is forgotten and the source is read again after the pending text [variant %s]' % (k, NEW, PENDING, v.name), variant=v.describe())
                else:
                    rep.ok('C10.R7', '%s yylex:%s status := %d only under status == NEW' % (v.name, x.line, k))
    # reader side: once EOF is pending yy_get_next_buffer does not read the source again
    g = sc.fn('yy_get_next_buffer')
    if g is not None:
        n += 1
        res = ir.Resolver(g); cfg = sc.prog.cfg(g)
        key = sc.key('C10.R7', 'yy_get_next_buffer', 'pending-stops-reading')
        edges = []
        for b in g.blocks:
            br = b.ins[-1]
            if br.op != 'br' or not br.ops: continue
            for t in br.targets:
                con = S.edge_constraint(g, br, t)
                if con and con[0] == 'eq' and con[2] == ('int', PENDING):
                    d = g.def_of(S.strip_ext(g, con[1]))
                    if d is not None and d.op == 'load' and sc.is_buf(res.loc(d.ops[0]), 'yy_buffer_status') and sc.via_current(res.loc(d.ops[0]), g): edges.append((br, t))
        reads = [y for y in g.ins if y.op in ('call', 'invoke') and sc.callee(y) in INPUT_CALLS]
        if not edges or not reads:
            rep.broken('C10.R7: yy_get_next_buffer of %s: %d tests of EOF_PENDING, %d input calls' % (v.name, len(edges), len(reads)))
        bad = [y for br, t in edges for y in cfg.reach_from_block(g.bmap[t]) if y in reads]
        # and every input call is behind the other edge of such a test
        unguarded = [y for y in reads if y in S.entry_reach(cfg, g, avoid=[br for br, t in edges])]
        if bad: rep.fail('C10.R7', key, where(bad[0]), 'yy_get_next_buffer reads the input source although end of file is pending for the buffer [variant %s]' % v.name, variant=v.describe())
        elif unguarded: rep.fail('C10.R7', key, where(unguarded[0]), 'yy_get_next_buffer can read the input source without having tested yy_buffer_status for EOF_PENDING [variant %s]' % v.name, variant=v.describe())
        else: rep.ok('C10.R7', '%s yy_get_next_buffer: %d input call(s), all behind status != EOF_PENDING' % (v.name, len(reads)))
    return n

def r8(ctx, sc):
    """R8: a new input source is adopted, not overwritten.  In yylex, on the edge where the current buffer is found NEW
    (the caller may just have pointed yyin at another source), the buffer's yy_input_file is assigned from yyin; and
    yylex never assigns yyin from the buffer (that is yy_load_buffer_state's job after a buffer switch): reversing the copy
    makes the finished source overwrite the new one, and the whole new input is skipped.  C back ends (the C++ class keeps
    a stream object, checked separately by the same shape on rdbuf)."""
    rep = ctx.rep; v = sc.v
    f = big_yylex(sc)
    if f is None or v.backend == 'cxx': return 0
    NEW, _ = status_constants(sc)
    res = ir.Resolver(f); c0 = sc.prog.cfg(f, cut=False)
    adopt = []; clobber = []
    for x in f.ins:
        if x.op != 'store': continue
        l = res.loc(x.ops[1])
        d = f.def_of(S.strip_ext(f, x.ops[0])) if x.ops[0][0] == 'reg' else None
        src = res.loc(d.ops[0]) if d is not None and d.op == 'load' else None
        if sc.is_buf(l, 'yy_input_file') and sc.via_current(l, f) and src is not None and sc.is_var(src, 'yyin'): adopt.append(x)
        if sc.is_var(l, 'yyin') and src is not None and sc.is_buf(src, 'yy_input_file'): clobber.append(x)
    key = sc.key('C10.R8', 'yylex', 'new-source')
    def under_new(x):
        for br, t in c0.control_deps_closure(x.blk):
            con = S.edge_constraint(f, br, t.name)
            if con is None or con[0] != 'eq' or con[2] != ('int', NEW): continue
            d = f.def_of(S.strip_ext(f, con[1]))
            if d is not None and d.op == 'load' and sc.is_buf(res.loc(d.ops[0]), 'yy_buffer_status'): return True
        return False
    if clobber:
        rep.fail('C10.R8', key + ':yyin-overwritten', where(clobber[0]), 'yylex assigns yyin from the current buffer\'s yy_input_file: a source the caller has just pointed yyin at is replaced by the finished one and never read [variant %s]' % v.name, variant=v.describe())
    elif not [x for x in adopt if under_new(x)]:
        rep.fail('C10.R8', key + ':not-adopted', fwhere(f), 'yylex does not copy yyin into the current buffer when it finds the buffer NEW: input re-pointed by the caller is ignored [variant %s]' % v.name, variant=v.describe())
    else:
        rep.ok('C10.R8', '%s yylex: current->yy_input_file = yyin under status == NEW; yyin is never assigned from the buffer' % v.name)
    return 1


# ---------------------------------------------------------------- R9

def _null_tests_controlling(fn, c0, blk):
    """[(branch, tested pointer value)] null tests on whose NON-NULL edge blk is (transitively) control dependent"""
    out = []
    for br, t in c0.control_deps_closure(blk):
        bn = flow.branch_on_null(fn, br) if br.op == 'br' else None
        if bn is not None and t.name == bn[2]: out.append((br, flow.strip_casts(fn, bn[0])))
    return out

def r9(ctx, sc):
    """R9: a buffer without an input file is never marked fillable, and a buffer that is not fillable is never read into.
    An in-memory buffer (yy_scan_buffer/_bytes/_string) has yy_input_file == NULL and yy_fill_buffer == 0; its end is the end of
    input.  yyinput() at the end of such a buffer calls yyrestart(yyin) with yyin == NULL, which re-initialises the buffer through
    yy_init_buffer(b, NULL); if that marks it fillable the next refill reads from a NULL file.  So, in every variant:
    (a) every store to yy_fill_buffer anywhere in the scanner is the constant 0, or a non-zero constant that is control dependent
        on the non-null edge of a test of the input file of the same buffer (the field just assigned, or the file parameter that
        was assigned to it, with no later assignment of the field in between), or the value of such a comparison itself;
    (b) yy_scan_buffer stores 0 on every path that returns the new buffer;
    (c) in yy_get_next_buffer every input call lies behind the non-zero edge of a test of the current buffer's yy_fill_buffer."""
    rep = ctx.rep; v = sc.v; n = 0
    for f in sc.mod.functions.values():
        res = ir.Resolver(f)
        st = [x for x in f.ins if x.op == 'store' and sc.is_buf(res.loc(x.ops[1]), 'yy_fill_buffer')]
        if not st: continue
        c = sc.canon(f); c0 = sc.prog.cfg(f, cut=False); cfg = sc.prog.cfg(f)
        file_stores = [y for y in f.ins if y.op == 'store' and sc.is_buf(res.loc(y.ops[1]), 'yy_input_file')]
        def is_file_value(p, at):
            """p (a pointer value tested at instruction `at`) is the input file of the buffer whose flag is stored"""
            d = f.def_of(p)
            if d is None or d.op != 'load': return False
            l = res.loc(d.ops[0])
            if sc.is_buf(l, 'yy_input_file'):
                # the field itself: still the value the function assigned (no assignment of the field between the load and `at`)
                return not any(y in cfg.reach(d) and at in cfg.reach(y) for y in file_stores)
            if l[0] == 'local':
                # a local / parameter: it is what the function assigns to the field
                def same(val):
                    dd = f.def_of(flow.strip_casts(f, val))
                    return dd is not None and dd.op == 'load' and res.loc(dd.ops[0]) == l
                return any(same(y.ops[0]) for y in file_stores)
            return False
        for x in st:
            n += 1
            key = sc.key('C10.R9', c, 'fill-without-file')
            val = S.strip_ext(f, x.ops[0])
            if val[0] == 'int' and val[1] == 0:
                rep.ok('C10.R9', '%s %s:%s yy_fill_buffer := 0' % (v.name, c, x.line)); continue
            if val[0] == 'int':
                good = [br for br, p in _null_tests_controlling(f, c0, x.blk) if is_file_value(p, x)]
                if good: rep.ok('C10.R9', '%s %s:%s yy_fill_buffer := %d only on the non-null edge of the test of the input file @%s' % (v.name, c, x.line, val[1], good[0].line))
                else:
                    rep.fail('C10.R9', key, where(x), '%s marks a buffer as fillable (yy_fill_buffer = %d) without having found its input file non-null: an in-memory buffer '
                             '(yy_scan_string/_bytes/_buffer: no file) that is re-initialised - yyinput() at its end calls yyrestart(yyin) with yyin == NULL - is then refilled with '
                             'fread()/getc() on a NULL FILE* at the next end-of-buffer instead of reporting end of input (yywrap, <<EOF>>) [variant %s]' % (c, val[1], v.name), variant=v.describe(),
                             replay_input='%%\n"/*"  { int c; while ((c = yyinput()) > 0) ; puts("open comment"); }\n.|\\n ;\n<<EOF>> { puts("EOF"); return 0; }\n%%\n'
                                          '-- yy_scan_string("ab /* never closed"); yylex(); yylex(): must print EOF twice, crashes in fread(NULL)')
                continue
            d = f.def_of(val)
            if d is not None and d.op == 'icmp' and d.pred == 'ne' and ('null',) in d.ops and is_file_value(flow.strip_casts(f, [o for o in d.ops if o != ('null',)][0]), x):
                rep.ok('C10.R9', '%s %s:%s yy_fill_buffer := (input file != NULL)' % (v.name, c, x.line)); continue
            # (file == NULL) ? 0 : 1 - clang's select for a conditional expression with constant arms (neutral diff m1P2)
            if d is not None and d.op == 'select' and len(d.ops) == 3:
                cd_ = f.def_of(d.ops[0]) if d.ops[0][0] == 'reg' else None
                a1, a2 = S.strip_ext(f, d.ops[1]), S.strip_ext(f, d.ops[2])
                if cd_ is not None and cd_.op == 'icmp' and cd_.pred in ('eq', 'ne') and ('null',) in cd_.ops and a1[0] == 'int' and a2[0] == 'int' \
                   and is_file_value(flow.strip_casts(f, [o for o in cd_.ops if o != ('null',)][0]), x):
                    null_arm, nonnull_arm = (a1, a2) if cd_.pred == 'eq' else (a2, a1)
                    if null_arm[1] == 0:
                        rep.ok('C10.R9', '%s %s:%s yy_fill_buffer := (input file == NULL) ? 0 : %d' % (v.name, c, x.line, nonnull_arm[1])); continue
            rep.fail('C10.R9', key, where(x), '%s stores a computed value into yy_fill_buffer that is not "the input file is non-null" [variant %s]' % (c, v.name), variant=v.describe())
    g = sc.fn('yy_scan_buffer')
    if g is not None:
        n += 1
        res = ir.Resolver(g); cfg = sc.prog.cfg(g)
        zero = [x for x in g.ins if x.op == 'store' and sc.is_buf(res.loc(x.ops[1]), 'yy_fill_buffer') and S.strip_ext(g, x.ops[0]) == ('int', 0)]
        bad = [y for y in g.ins if y.op == 'store' and y.ops[1] == ('reg', 'retval') and y.ops[0] != ('null',) and y in S.entry_reach(cfg, g, avoid=zero)]
        if bad or not zero:
            rep.fail('C10.R9', sc.key('C10.R9', 'yy_scan_buffer', 'not-fillable'), where(bad[0]) if bad else fwhere(g),
                     'yy_scan_buffer can return the new in-memory buffer without having set yy_fill_buffer to 0: the end of the text would be followed by a read from a NULL file [variant %s]' % v.name, variant=v.describe())
        else: rep.ok('C10.R9', '%s yy_scan_buffer: yy_fill_buffer := 0@%s on every path that returns the buffer' % (v.name, zero[0].line))
    g = sc.fn('yy_get_next_buffer')
    if g is not None:
        n += 1
        res = ir.Resolver(g); cfg = sc.prog.cfg(g)
        key = sc.key('C10.R9', 'yy_get_next_buffer', 'reads-only-if-fillable')
        zero_edges = []
        for b in g.blocks:
            br = b.ins[-1]
            if br.op != 'br' or not br.ops: continue
            for t in br.targets:
                con = S.edge_constraint(g, br, t)
                if con and con[0] == 'eq' and con[2] == ('int', 0):
                    d = g.def_of(S.strip_ext(g, con[1]))
                    if d is not None and d.op == 'load' and sc.is_buf(res.loc(d.ops[0]), 'yy_fill_buffer') and sc.via_current(res.loc(d.ops[0]), g): zero_edges.append((br, t))
        reads = [y for y in g.ins if y.op in ('call', 'invoke') and sc.callee(y) in INPUT_CALLS]
        if not reads: rep.broken('C10.R9: yy_get_next_buffer of %s has no input call' % v.name)
        bad = [y for br, t in zero_edges for y in cfg.reach_from_block(g.bmap[t]) if y in reads]
        unguarded = [y for y in reads if y in S.entry_reach(cfg, g, avoid=[br for br, t in zero_edges])]
        if not zero_edges or unguarded:
            rep.fail('C10.R9', key, where(unguarded[0]) if unguarded else fwhere(g), 'yy_get_next_buffer can read the input source without having tested yy_fill_buffer of the current buffer [variant %s]' % v.name, variant=v.describe())
        elif bad: rep.fail('C10.R9', key, where(bad[0]), 'yy_get_next_buffer reads the input source although the buffer is marked as not fillable [variant %s]' % v.name, variant=v.describe())
        else: rep.ok('C10.R9', '%s yy_get_next_buffer: %d input call(s), all behind yy_fill_buffer != 0' % (v.name, len(reads)))
    return n

# ---------------------------------------------------------------- R10

def _is_var_load(sc, fn, res, v, *canon):
    d = fn.def_of(S.strip_ext(fn, v)) if v[0] == 'reg' else None
    return d is not None and d.op == 'load' and any(sc.is_var(res.loc(d.ops[0]), c) for c in canon)

def eob_byte_distance(sc):
    """D such that yy_get_next_buffer() takes the end-of-buffer byte it was called for to sit at yy_c_buf_p - D: the constant in
    its computation  number_to_move = yy_c_buf_p - yytext_ptr - D  of the text in front of that byte (stored to a local)"""
    g = sc.fn('yy_get_next_buffer')
    if g is None: return None
    res = ir.Resolver(g); ds = set()
    for x in g.ins:
        if x.op != 'sub' or x.ops[1][0] != 'int': continue
        lds = [y for y in flow.value_slice(g, x.ops[0]) if y.op == 'load']
        if len(lds) != 2: continue
        if not (any(sc.is_var(res.loc(y.ops[0]), 'yy_c_buf_p') for y in lds) and any(sc.is_var(res.loc(y.ops[0]), 'yytext') or sc.is_var(res.loc(y.ops[0]), 'yytext_ptr') for y in lds)): continue
        # ... stored to a local (not merely compared)
        vals = {x.res}
        for u in g.ins:
            if u.op in ('trunc', 'sext', 'zext') and u.ops[0][0] == 'reg' and u.ops[0][1] in vals: vals.add(u.res)
        if any(u.op == 'store' and u.ops[0][0] == 'reg' and u.ops[0][1] in vals and (lambda a: a is not None and a.op == 'alloca')(g.def_of(u.ops[1])) for u in g.ins): ds.add(x.ops[1][1])
    return ds.pop() if len(ds) == 1 else None

def r10(ctx, sc):
    """R10: "this was really a NUL" is decided with the right operator for where the scan pointer stands.  The end-of-buffer byte
    is a NUL; a NUL inside the data (position p < yy_n_chars) must be scanned as a character, the sentinel (p >= yy_n_chars) starts
    a refill.  yylex and yyinput each compare yy_c_buf_p with &yy_ch_buf[yy_n_chars] before they call yy_get_next_buffer(), but at
    different distances from the byte: yylex's match loop has already stepped over it, yyinput steps over it after the test.
    The distance is derived, not assumed: yy_get_next_buffer() takes the byte to sit at yy_c_buf_p - D (D read from its
    number_to_move computation), and the net advance A of yy_c_buf_p on the way from the comparison to the call is read from the
    stores on that path; at the comparison the pointer therefore stands at p + D - A.  The comparison is then evaluated for every
    0 <= p <= n + 1, n <= 6: it must take the refill side exactly when p >= n."""
    rep = ctx.rep; v = sc.v; n_inst = 0
    D = eob_byte_distance(sc)
    if D is None: rep.broken('C10.R10: cannot read from yy_get_next_buffer of %s where it expects the end-of-buffer byte relative to yy_c_buf_p' % v.name)
    for canon in ('yylex', 'yyinput'):
        f = big_yylex(sc) if canon == 'yylex' else sc.fn('yyinput')
        if f is None: continue
        res = ir.Resolver(f); cfg = sc.prog.cfg(f)
        for call in sc.calls(f, 'yy_get_next_buffer'):
            found = None
            for b in f.blocks:
                br = b.ins[-1]
                if br.op != 'br' or not br.ops or b is call.blk or not cfg.dominates(b, call.blk): continue
                d = f.def_of(br.ops[0])
                if d is None or d.op != 'icmp' or d.pred not in ('ule', 'ult', 'uge', 'ugt', 'sle', 'slt', 'sge', 'sgt', 'eq', 'ne'): continue
                def end_of(val):
                    """val = &yy_ch_buf[yy_n_chars + c]: returns c"""
                    g = f.def_of(val)
                    if g is None or g.op != 'getelementptr' or len(g.ops) != 2: return None
                    bl = f.def_of(g.ops[0])
                    if bl is None or bl.op != 'load' or not sc.is_buf(res.loc(bl.ops[0]), 'yy_ch_buf'): return None
                    af = S.affine(f, g.ops[1], lambda w: _is_var_load(sc, f, res, w, 'yy_n_chars'))
                    return af[1] if af is not None else None
                x, y = d.ops
                if _is_var_load(sc, f, res, x, 'yy_c_buf_p') and end_of(y) is not None: ptr_first, c_ = True, end_of(y)
                elif _is_var_load(sc, f, res, y, 'yy_c_buf_p') and end_of(x) is not None: ptr_first, c_ = False, end_of(x)
                else: continue
                sides = [t for t in cfg.succ[b] if cfg.dominates(t, call.blk)]
                if len(sides) == 1: found = (br, d, ptr_first, c_, sides[0])
            if found is None: continue              # (that the comparison exists is C04.R3)
            br, d, ptr_first, c_, refill = found
            n_inst += 1
            key = sc.key('C10.R10', canon, 'NUL-vs-end-test:operator')
            # net advance of yy_c_buf_p between the comparison and the call
            is_p = lambda w: _is_var_load(sc, f, res, w, 'yy_c_buf_p')
            adv = 0; unknown = None
            between = [s_ for s_ in stores_of(sc, f, 'yy_c_buf_p') if s_ in cfg.reach_from_block(refill, avoid=[call]) and call in cfg.reach(s_)]
            for s_ in between:
                g = f.def_of(s_.ops[0])
                # a constant step of the pointer that lies on every path from the comparison to the call, once
                if g is not None and g.op == 'getelementptr' and len(g.ops) == 2 and g.ops[1][0] == 'int' and is_p(g.ops[0]) \
                   and call not in cfg.reach_from_block(refill, avoid=[s_]) and s_ not in cfg.reach(s_, avoid=[call]):
                    adv += g.ops[1][1]
                else: unknown = s_
            if unknown is not None:
                rep.broken('C10.R10: %s of %s: yy_c_buf_p is assigned (%s) between the NUL-versus-end comparison and yy_get_next_buffer() in a way that is not a constant step on every path' % (canon, v.name, where(unknown)))
            off = D - adv
            PRED = {'ule': lambda a, b: a <= b, 'ult': lambda a, b: a < b, 'uge': lambda a, b: a >= b, 'ugt': lambda a, b: a > b,
                    'sle': lambda a, b: a <= b, 'slt': lambda a, b: a < b, 'sge': lambda a, b: a >= b, 'sgt': lambda a, b: a > b,
                    'eq': lambda a, b: a == b, 'ne': lambda a, b: a != b}[d.pred]
            true_is_refill = (f.bmap[br.targets[0]] is refill)
            bad = None; evals = 0
            for nn in range(0, 7):
                for p in range(0, nn + 2):
                    q = p + off; e = nn + c_
                    r_ = PRED(q, e) if ptr_first else PRED(e, q)
                    refills = (r_ == true_is_refill)
                    evals += 1
                    if refills != (p >= nn) and bad is None: bad = (p, nn, refills)
            if bad:
                p, nn, refills = bad
                rep.fail('C10.R10', key, where(br),
                         '%s decides "really a NUL or the end of the buffer" with yy_c_buf_p %s &yy_ch_buf[yy_n_chars%s], evaluated with the pointer standing %d past the byte '
                         '(yy_get_next_buffer expects it at yy_c_buf_p - %d and the pointer advances by %d between the comparison and the call): for a NUL at position %d of %d '
                         'characters read the test %s - %s [variant %s]' % (
                             canon, d.pred if ptr_first else 'is the right operand of ' + d.pred, ('%+d' % c_) if c_ else '', off, D, adv, p, nn,
                             'starts a refill' if refills else 'treats the byte as data',
                             'a NUL that is the last byte delivered by a read is taken for the end of the buffer and dropped' if refills else 'the end-of-buffer sentinel is scanned as input', v.name),
                         variant=v.describe(), replay_input='printf "ab\\0" | scanner with rules [a-z]+ and \\0: the NUL must be reported before end of file')
            else:
                rep.ok('C10.R10', '%s %s: yy_c_buf_p %s &yy_ch_buf[yy_n_chars] @%s with the pointer %d past the byte refills exactly for p >= n (%d evaluations)' % (v.name, canon, d.pred, br.line, off, evals))
    return n_inst

# ---------------------------------------------------------------- driver

def run(ctx):
    rep = ctx.rep
    g3 = r3_generator(ctx) + r3_unqualified(ctx)
    vs = ctx.variants()
    rep.require(len(vs) >= 100, 'only %d scanner variants compiled to IR' % len(vs))
    multi = 0; backs10 = set()
    for v in vs:
        sc = scanner(v)
        r1(ctx, sc)
        k = r3_scanner(ctx, sc)
        if k > 1: multi += 1
        r4(ctx, sc)
        r5(ctx, sc)
        r7(ctx, sc)
        r8(ctx, sc)
        r9(ctx, sc)
        for k_ in range(r10(ctx, sc)): backs10.add(v.backend)
    rep.require(backs10 >= {'nr', 'r', 'cxx', 'c99', 'go'}, 'C10.R10 evaluated a NUL-versus-end comparison only in back ends %s' % sorted(backs10))
    rep.setcount('variants_analysed', len(vs))
    rep.setcount('variants_with_several_start_conditions', multi)
    rep.setcount('generator_obligations_R3', g3)
    rep.floor('C10.R1', 200, 'yylex and yyinput in >=100 variants')
    rep.floor('C10.R8', 90, 'yylex of every C variant')
    rep.floor('C10.R9', 450, 'two stores in yy_init_buffer, the reader test in yy_get_next_buffer and (C back ends) the store and the return obligation of yy_scan_buffer, >=100 variants')
    rep.floor('C10.R10', 200, 'the comparisons in yylex and in yyinput of >=100 variants')
    rep.floor('C10.R3', 351, '5 generator obligations + 4 EOF arms in each of >=80 multi-condition variants + 1 in the others')
    rep.floor('C10.R4', 200, 'yy_init_buffer and yyrestart in every variant')
    rep.floor('C10.R7', 500, 'the status stores of yylex, yy_get_next_buffer, yy_flush_buffer, yy_scan_buffer and the reader obligation in >=100 variants')
    rep.floor('C10.R5', 550, '4 API functions + 2 yylex obligations in >=100 variants')
    rep.undecided += ['that every byte already read is still tokenised before the EOF action (value-level: EOB_ACT_LAST_MATCH bookkeeping)',
                      'chains of yywrap() calls and what the user function does',
                      'behaviour of user <<EOF>> actions (e.g. that they return or switch buffers)',
                      'yyinput does not clear yy_did_buffer_switch_on_eof before yywrap (the refill has set it; the restart is then skipped and input is read from yyin directly) - recorded, not judged']
    rep.assumptions += ['clang -O0 IR of the instantiated skeleton is a faithful rendering of the generated source',
                        'C++ virtual calls (yywrap, yyrestart, ...) resolve to the yyFlexLexer implementations',
                        'the probe specifications are owned by the machinery: the number of start conditions is read from the probe text']
    import act_tbl
    act_tbl.eof_rule(ctx, rep, 'C10.R6')
    rep.floor('C10.R6', 30, 'end-of-file arms of the EOF probes')
    return rep.finish('other',
        'Must-pass-through analysis on the LLVM IR of %d scanner variants (all back ends): from the end-of-file arm of the refill switch to return / refill / EOF '
        'action through the yywrap call, edge-sensitive on the test of its result; case-set check of the action switch against the declared start conditions; '
        'must-store of yy_did_buffer_switch_on_eof behind every change of the current buffer (null-buffer edges removed); generator side on the IR of flex: '
        'who-writes sceof[], pairing of the store with the emitted case arm by index signature, control dependence of the final arm-emitting loop.' % len(vs))
