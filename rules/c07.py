"""C07 - yyreject() / REJECT.

The order in which a generated scanner visits alternative matches is a runtime quantity: not decided.  Decided:

R1  flex refuses REJECT with -Cf/-CF: once `reject`, `ctrl.fulltbl` and `ctrl.fullspd` have their final
    values in readin() (no later store, no later call that can store them), every path on which the tests of
    those variables go the way `reject && fulltbl` (resp. `reject && fullspd`) dictates ends in a no-return
    refusal; readin() cannot return.
R2  accepting sets are sorted: in snstods() the copy of accset[] into dfaacc[].dfaacc_set is dominated by
    qsort(accset+1, nacc, .., intcmp), and intcmp is ascending (evaluated on sample rule numbers).
R3  in REJECT variants of the generated scanners the `num_to_read <= 0` edge of yy_get_next_buffer ends in
    the fatal hook (the buffer is never grown and the scan never continues).
R6  REJECT state stack: every push is a post-increment push through yy_state_ptr (store through the value, then advance by one
    from the same value) in yylex, yy_get_previous_state and yy_try_NUL_trans; both loops start from yy_state_buf.
R4  detection of REJECT in actions is satisfiable: for every store `reject = true` in the scanner of scan.l
    that is guarded by a predicate on yytext (all_upper / all_lower / strncmp prefix), the language of the
    rule's pattern intersected with the language of the predicate is non-empty.
"""
import re
import ir, flow, lex, variants
from common import where, fwhere
from c01 import (Unrecognised, all_fns, bool_core, region, biggest_switch, local_slot, stores_to_slot, run_pure, sign,
                 CTYPE_BITS, _slot_of)

# =============================================================================== R1

def _cls(l): return ir.loc_class(l)

REJECT = ('global', 'reject')
def _ctrl(f): return ('field', 'ctrl_bundle_t', f)

def r1(ctx):
    rep = ctx.rep; prog = ctx.flex
    fn = prog.fn('readin')
    if fn is None: rep.broken('C07.R1: readin not found')
    gl = set()
    for m in prog.modules: gl |= set(m.globals)
    if 'reject' not in gl or 'ctrl' not in gl: rep.broken('C07.R1: globals reject / ctrl not found')
    targets = {REJECT, _ctrl('fulltbl'), _ctrl('fullspd')}
    noret = prog.noreturn()
    # functions that may (transitively) store one of the three variables; no-return callees never come back
    direct = set()
    seen_fields = set()
    for f in all_fns(prog):
        res = ir.Resolver(f)
        for x in f.ins:
            if x.op == 'store':
                c = _cls(res.loc(x.ops[1]))
                if c in targets: direct.add(f.name); seen_fields.add(c)
    if targets - seen_fields: rep.broken('C07.R1: no store to %s anywhere in flex (field renamed?)' % sorted(targets - seen_fields))
    cg = prog.callgraph()
    writers = set(direct); changed = True
    while changed:
        changed = False
        for f, cs in cg.items():
            if f in writers: continue
            if any(c in writers and c not in noret for c in cs): writers.add(f); changed = True
    res = ir.Resolver(fn); cfg = prog.cfg(fn)
    W = set()
    for x in fn.ins:
        if x.op == 'store' and _cls(res.loc(x.ops[1])) in targets: W.add(x)
        elif x.op == 'call':
            if isinstance(x.callee, str):
                if x.callee in writers and x.callee not in noret: W.add(x)
            else: W.add(x)      # indirect call: anything may happen
    # instructions from which some writer is still reachable
    pre = set()
    for w in W:
        pre.add(w)
    wb = {}
    for w in W: wb.setdefault(w.blk, []).append(w.idx)
    # block-level: can a block with a writer be reached from the end of b?
    reach_w_after = {}
    def after(b):
        if b in reach_w_after: return reach_w_after[b]
        reach_w_after[b] = False
        seen = set(); st = list(cfg.succ[b]); r = False
        while st:
            t = st.pop()
            if t in seen: continue
            seen.add(t)
            if t in wb: r = True; break
            st += cfg.succ[t]
        reach_w_after[b] = r
        return r
    def in_tail(x):
        if any(i >= x.idx for i in wb.get(x.blk, [])): return False
        return not after(x.blk)
    n_tail_tests = {t: 0 for t in targets}
    tests = []       # (br, location class, pol)
    for b in fn.blocks:
        br = b.ins[-1] if b.ins else None
        if br is None or br.op != 'br' or not br.ops: continue
        v, pol = bool_core(fn, br.ops[0])
        d = fn.def_of(v)
        if d is None or d.op != 'load': continue
        c = _cls(res.loc(d.ops[0]))
        if c in targets and in_tail(br):
            tests.append((br, c, pol)); n_tail_tests[c] += 1
    entry = fn.entry.ins[0]
    failing = []
    for flag in ('fulltbl', 'fullspd'):
        assume = {REJECT, _ctrl(flag)}
        allowed = {}
        for br, c, pol in tests:
            if c in assume: allowed[br.blk] = br.targets[0] if pol else br.targets[1]
        ef = lambda b, t, allowed=allowed: (b not in allowed) or t.name == allowed[b]
        wit = cfg.path(entry, lambda x: x.op == 'ret', include_start=True, edge_filter=ef)
        if wit is None:
            cut = [x for x in cfg.reach(entry, include_start=True, edge_filter=ef) if x.op == 'call' and x.callee in noret and x.blk in
                   {bb for br, c, pol in tests if c in assume for bb in region(cfg, fn.bmap[allowed[br.blk]])}]
            rep.ok('C07.R1', 'readin cannot return when reject && ctrl.%s hold at their final values (%d tests of these variables after their last write; refusal at %s)' % (
                flag, sum(1 for br, c, pol in tests if c in assume), where(min(cut, key=lambda x: x.line or 0)) if cut else '?'))
        else:
            missing = ['reject' if c == REJECT else 'ctrl.' + c[2] for c in sorted(assume) if n_tail_tests[c] == 0]
            short = [wit[0]] + [x for x in wit[1:-1] if x.blk in allowed] + [wit[-1]]
            failing.append((flag, missing, short))
    if failing:
        flag, missing, short = failing[0]
        rep.obl.setdefault('C07.R1', [0, 0])[0] += len(failing) - 1      # one report, but each flag is an obligation
        rep.fail('C07.R1', 'C07.R1:main.c:readin:reject-with-full-tables', where(short[-1]),
                 'readin() can return with reject set and %s set: %s' % (' / '.join('ctrl.' + f for f, _, _ in failing),
                      ('no test of %s after its last write' % ', '.join(missing)) if missing else 'the tests of these variables do not all lead to a refusal'),
                 witness=['%s:%s' % (x.blk.name, x.line) for x in short],
                 replay_input='%%\na  REJECT;\n.|\\n ;\n%%  (flex -C' + ('f' if flag == 'fulltbl' else 'F') + ' must refuse)')

# =============================================================================== R2

DFAACC_ELEM = ('elem', ('deref', ('global', 'dfaacc')))

def r2(ctx):
    rep = ctx.rep; prog = ctx.flex
    fn = prog.fn('snstods')
    if fn is None: rep.broken('C07.R2: snstods not found')
    res = ir.Resolver(fn); cfg = prog.cfg(fn)
    # the copy: store of accset[k] (element of a pointer parameter) into *(dfaacc[..].dfaacc_set + k)
    copies = []
    for x in fn.ins:
        if x.op != 'store': continue
        if res.loc(x.ops[1]) != ('elem', ('deref', DFAACC_ELEM)): continue
        d = fn.def_of(x.ops[0])
        if d is None or d.op != 'load': continue
        l = res.loc(d.ops[0])
        if l[0] == 'elem' and l[1][0] == 'deref' and l[1][1][0] == 'local' and fn.is_param(l[1][1][1].replace('.addr', '')):
            copies.append((x, l[1][1]))
    if len(copies) != 1: rep.broken('C07.R2: %d copies of the accepting set into dfaacc[].dfaacc_set found in snstods' % len(copies))
    copy, pslot = copies[0]
    pname = pslot[1].replace('.addr', '')
    sorts = []
    for c in fn.ins:
        if c.op != 'call' or c.callee != 'qsort' or len(c.ops) != 4: continue
        base = flow.strip_casts(fn, c.ops[0])
        l = res.loc(base)
        if l == ('elem', ('deref', pslot)) or l == ('deref', pslot): sorts.append((c, base))
    key = 'C07.R2:dfa.c:snstods:accset-sorted'
    dom = [(c, b) for c, b in sorts if cfg.ins_dominates(c, copy)]
    if not dom:
        rep.fail('C07.R2', key, where(copy), 'the accepting set %s[] is copied into dfaacc[].dfaacc_set without a dominating qsort: the REJECT walk visits equal-length matches in NFA-state order, not rule order' % pname,
                 replay_input='%%\nb  { printf("2"); REJECT; }\n[a-z]  { printf("3"); REJECT; }\n.|\\n ;\n%%  (input "b": must print 23)')
    else:
        c, base = dom[0]
        g = fn.def_of(base)
        off = g.ops[1] if g is not None and g.op == 'getelementptr' and len(g.ops) == 2 else None
        cnt = _slot_of(fn, res, c.ops[1])
        # loop bound of the copy: index compared with the same count variable
        bound = None
        for br, t in cfg.control_deps(copy.blk):
            h = fn.def_of(br.ops[0]) if br.ops else None
            if h is not None and h.op == 'icmp': bound = (_slot_of(fn, res, h.ops[1]), h.pred)
        cmpf = flow.strip_casts(fn, c.ops[3])
        if cmpf != ('glob', 'intcmp'):
            rep.fail('C07.R2', key + ':comparator', where(c), 'accepting set sorted with %s, not intcmp' % (cmpf[1] if cmpf[0] == 'glob' else 'a computed comparator'))
        elif off != ('int', 1) or c.ops[2] != ('int', 4) or cnt is None or bound is None or bound[0] != cnt:
            rep.fail('C07.R2', key + ':range', where(c), 'qsort(%s+%s, %s, %s) does not cover the elements 1..%s that are copied' % (
                pname, off[1] if off and off[0] == 'int' else '?', cnt[1] if cnt else '?', c.ops[2][1] if c.ops[2][0] == 'int' else '?', bound[0][1] if bound and bound[0] else '?'))
        else:
            rep.ok('C07.R2', 'snstods: copy of %s[1..%s] into dfaacc_set at %s is dominated by qsort(%s+1, %s, 4, intcmp) at %s' % (
                pname, cnt[1].replace('.addr', ''), where(copy), pname, cnt[1].replace('.addr', ''), where(c)))
    # intcmp ascending
    f = prog.fn('intcmp')
    if f is None: rep.broken('C07.R2: intcmp not found')
    vals = [1, 2, 3, 7, 8, 255, 256, 1000, 32767, 65536, 2 ** 31 - 1]
    bad = None
    try:
        for a in vals:
            for b in vals:
                if bad is None and sign(run_pure(f, [[a], [b]])) != sign(a - b): bad = (a, b)
    except Unrecognised as e:
        rep.broken('C07.R2: intcmp cannot be evaluated: %s' % e)
    if bad is None: rep.ok('C07.R2', 'intcmp evaluated on %d pairs of rule numbers: ascending' % (len(vals) ** 2))
    else: rep.fail('C07.R2', 'C07.R2:misc.c:intcmp:order', fwhere(f), 'intcmp(%d,%d) has the wrong sign for ascending order: accepting sets come out last rule first' % bad)

# =============================================================================== R3

SKEL = {'nr': 'cpp-flex.skl', 'r': 'cpp-flex.skl', 'cxx': 'cpp-flex.skl', 'c99': 'c99-flex.skl', 'go': 'go-flex.skl'}

def _gnb(mod):
    for n, f in mod.functions.items():
        if re.search(r'(^|[^a-z])(yy|foo|bar)_get_next_buffer', n) or re.search(r'\d+(yy|foo|bar)_get_next_bufferEv$', n): return f
    return None

def r3(ctx):
    rep = ctx.rep
    vs = ctx.variants(lambda v: 'M4_MODE_USES_REJECT' in variants.mode_symbols(v))
    if len(vs) < 10: rep.broken('C07.R3: only %d REJECT variants compiled to IR' % len(vs))
    backends = set()
    for v in vs:
        mod = variants.module(v); prog = variants.program(v)
        fn = _gnb(mod)
        if fn is None: rep.broken('C07.R3: yy_get_next_buffer not found in variant %s' % v.name)
        res = ir.Resolver(fn); cfg = prog.cfg(fn); noret = prog.noreturn()
        # num_to_read: the local that receives <buffer size> - <moved> - 1
        cands = set()
        for s in fn.ins:
            if s.op != 'store': continue
            l = res.loc(s.ops[1])
            if l[0] != 'local': continue
            sl = flow.value_slice(fn, s.ops[0])
            if any(d.op == 'sub' for d in sl) and any(d.op == 'load' and (ir.field_of(res.loc(d.ops[0])) or ('', ''))[1] and
                                                     re.search(r'(?i)buf_?size$', ir.field_of(res.loc(d.ops[0]))[1]) for d in sl):
                cands.add(l[1])
        tests = []
        for x in fn.ins:
            if x.op == 'icmp' and x.pred in ('sle', 'slt') and x.ops[1] in (('int', 0), ('int', 1), ('int', -1)) and local_slot(fn, x.ops[0]) in cands:
                tests.append(x)
        if len(tests) != 1: rep.broken('C07.R3: %d tests `num_to_read <= 0` recognised in yy_get_next_buffer of variant %s' % (len(tests), v.name))
        t = tests[0]
        br = t.blk.ins[-1]
        if br.op != 'br' or br.ops != [('reg', t.res)]: rep.broken('C07.R3: `num_to_read <= 0` does not control a branch in %s' % v.name)
        # the edge taken when no room is left (num_to_read == 0): evaluate the comparison
        takes_true = {'sle': 0 <= t.ops[1][1], 'slt': 0 < t.ops[1][1]}[t.pred]
        tb = fn.bmap[br.targets[0] if takes_true else br.targets[1]]
        r = cfg.reach_from_block(tb)
        fatal = [x for x in r if x.op in ('call', 'invoke') and isinstance(x.callee, str) and x.callee in noret]
        escapes = [x for x in r if x.op == 'ret' or x is t]
        key = 'C07.R3:%s:yy_get_next_buffer:no-room' % SKEL[v.backend]
        if fatal and not escapes:
            backends.add(v.backend)
            rep.ok('C07.R3', '%s yy_get_next_buffer: the num_to_read<=0 edge at line %s ends in %s' % (v.name, t.line, fatal[0].callee))
        else:
            wit = cfg.path(tb.ins[0], lambda x: x.op == 'ret' or x is t, include_start=True)
            pass      # (Reporter.fail counts a repeated key as one more instance and reports it once)
            rep.fail('C07.R3', key, where(t), 'in a REJECT scanner the "no room in the buffer" edge of yy_get_next_buffer %s [variant %s]' % (
                'never reaches the fatal hook' if not fatal else 'can continue scanning or return without the fatal error', v.name),
                witness=['%s:%s' % (x.blk.name, x.line) for x in (wit or [])], variant=v.describe())
    rep.setcount('reject_variants', len(vs))
    if len(backends) < 5 and not rep.viol: rep.broken('C07.R3: back ends covered: %s' % sorted(backends))

# =============================================================================== R6

def _root_load(fn, a, ptr):
    """(load instruction of yy_state_ptr, constant offset) a pointer is derived from, else (None, None)"""
    off = 0; v = ptr; depth = 0
    while depth < 12:
        depth += 1
        if not isinstance(v, tuple) or v[0] != 'reg': return (None, None)
        d = fn.def_of(v)
        if d is None: return (None, None)
        if d.op == 'bitcast': v = d.ops[0]; continue
        if d.op == 'getelementptr' and len(d.ops) == 2 and d.ops[1][0] == 'int': off += d.ops[1][1]; v = d.ops[0]; continue
        if d.op == 'load':
            import c03
            return (d, off) if c03.cell_role(a.loc(d.ops[0])) == 'STATEPTR' else (None, None)
        return (None, None)
    return (None, None)

def r6(ctx):
    """the state stack and the scan pointer move in lockstep: in every REJECT scanner each place that makes a transition (the
    match loop of yylex, the re-scan loop of yy_get_previous_state, yy_try_NUL_trans) stores the new state THROUGH the value
    of yy_state_ptr and then advances yy_state_ptr by one from that same value (post-increment push); yylex and
    yy_get_previous_state both start from `yy_state_ptr = yy_state_buf` followed by the push of the start state.  A
    pre-increment push leaves every entry one slot too high: after a refill REJECT reads the state of the next-shorter
    length."""
    import c03
    rep = ctx.rep
    vs = ctx.variants(lambda v: 'M4_MODE_USES_REJECT' in variants.mode_symbols(v))
    n = 0
    for v in vs:
        sc = c03.Scanner(v)
        for role, nm, need in (('LEX', 'yylex', 2), ('GPS', 'yy_get_previous_state', 2), ('NUL', 'yy_try_NUL_trans', 1)):
            fn = sc.fn(role, having_call='GNB' if role == 'LEX' else None)
            if fn is None: rep.broken('C07.R6: %s not found in variant %s' % (nm, v.name))
            a = sc.fa(fn); cfg = sc.prog.cfg(fn)
            incs = []          # (root load, store of (load + 1) to yy_state_ptr)
            resets = []
            ptr_stores = a.cell_stores('STATEPTR')
            for x in ptr_stores:
                ld, off = _root_load(fn, a, x.ops[0])
                if ld is not None and off == 1: incs.append((ld, x))
                d = fn.def_of(x.ops[0])
                if d is not None and d.op == 'load' and c03.cell_role(a.loc(d.ops[0])) == 'STATEBUF': resets.append(x)
            pushes = []
            for x in fn.ins:
                if x.op != 'store': continue
                ld, off = _root_load(fn, a, x.ops[1])
                if ld is not None: pushes.append((x, ld, off))
            key = 'C07.R6:%s:%s:state-stack-push-shape' % (SKEL[v.backend], nm)
            n += 1
            bad = None
            for x, ld, off in pushes:
                if off != 0: bad = (x, 'stores the state at yy_state_ptr%+d (the slot after the increment) instead of through the value yy_state_ptr had before it was advanced' % off); break
                # the increment starts from the same value: the same load, or a load in the same block with no assignment of
                # yy_state_ptr between the two loads (`*p = s; ++p;` is the same push as `*p++ = s;`)
                ok_inc = False
                for li, st_ in incs:
                    if li is ld: ok_inc = True
                    elif li.blk is ld.blk and st_.blk is ld.blk:
                        lo, hi = sorted((li.idx, ld.idx))
                        if not any(y.blk is ld.blk and lo < y.idx < hi for y in ptr_stores): ok_inc = True
                if not ok_inc: bad = (x, 'is not paired with yy_state_ptr = <that value> + 1 (post-increment)'); break
            if bad is None and len(pushes) < need:
                bad = (fn.entry.ins[0], 'has %d push(es) of a state, %d expected (%s)' % (len(pushes), need, 'start state + one per character' if need == 2 else 'the NUL transition'))
            if bad is None and role in ('LEX', 'GPS') and not any(cfg.ins_dominates(r_, x) for r_ in resets for x, _, _ in pushes):
                bad = (pushes[0][0], 'does not start from yy_state_ptr = yy_state_buf')
            if bad:
                rep.fail('C07.R6', key, where(bad[0]), 'REJECT state stack: the push in %s (line %s) %s: stack entries and scan positions get out of step, REJECT then reports the wrong (rule, length) alternatives [variant %s]' % (
                    nm, bad[0].line, bad[1], v.name), variant=v.describe())
            else:
                rep.ok('C07.R6', '%s %s: %d post-increment push(es) through yy_state_ptr%s' % (v.name, nm, len(pushes), ', starting from yy_state_buf' if role != 'NUL' else ''))
    rep.setcount('R6_instances', n)
    if n < 45 and not rep.viol: rep.broken('C07.R6 matched %d instances, 3 per REJECT variant expected' % n)

# =============================================================================== R4

def intersect_all(asts):
    """shortest byte string in the intersection of all languages (product of lex.DFA automata), or None"""
    import collections
    ds = [lex.DFA([(1, a)]) for a in asts]
    start = tuple(0 for _ in ds); seen = {start: None}; q = collections.deque([start])
    while q:
        st = q.popleft()
        if all(x in d.accept for x, d in zip(st, ds)):
            w = []; x = st
            while seen[x] is not None: x, c = seen[x]; w.append(c)
            return bytes(reversed(w))
        for c in range(256):
            ns = []
            for x, d in zip(st, ds):
                y = d.step(x, c)
                if y is None: break
                ns.append(y)
            else:
                ns = tuple(ns)
                if ns not in seen: seen[ns] = (st, c); q.append(ns)
    return None

def _pred_ast(fn, br, res, mod):
    """language of the yytext predicate that controls branch br: (name, AST, polarity-corrected) or None"""
    v, pol = bool_core(fn, br.ops[0])
    d = fn.def_of(v)
    if d is None or d.op != 'call' or not isinstance(d.callee, str): return None
    if d.callee in ('all_upper', 'all_lower'):
        f = lex.POSIX['upper' if d.callee == 'all_upper' else 'lower']
        return d.callee, lex.ast_of_string_pred(f), pol, d
    if d.callee in ('strncmp', 'strcmp'):
        lit = None
        for a in d.ops[:2]:
            s_ = flow.const_arg(fn, a)
            if isinstance(s_, str): lit = s_
        if lit is None: return None
        n = d.ops[2][1] if d.callee == 'strncmp' and d.ops[2][0] == 'int' else None
        if d.callee == 'strncmp' and n is None: return None
        pre = lit if n is None else lit[:n]
        items = [('set', frozenset([ord(c) & 255])) for c in pre]
        if d.callee == 'strncmp' and n <= len(lit): items.append(('star', ('set', lex.ALL)))
        return '%s(..,"%s")==0' % (d.callee, pre), ('cat', items), (not pol), d      # the call is 0 on equality
    return None

def _check_predicate_fn(ctx, name):
    """all_upper / all_lower test the ctype class their name says (mask read from the IR)"""
    f = ctx.flex.fn(name)
    if f is None: ctx.rep.broken('C07.R4: %s not found' % name)
    want = 'upper' if name == 'all_upper' else 'lower'
    masks = set(); calls = set(); res = ir.Resolver(f)
    for x in f.ins:
        if x.op == 'and' and x.ops[1][0] == 'int' and x.ops[1][1] in CTYPE_BITS:
            d = f.def_of(flow.int_origin(f, x.ops[0]))
            l = res.loc(d.ops[0]) if d is not None and d.op == 'load' else None
            if l and l[0] == 'elem' and l[1][0] == 'deref' and l[1][1][0] == 'call' and l[1][1][1] == '__ctype_b_loc': masks.add(CTYPE_BITS[x.ops[1][1]])
        if x.op == 'call' and isinstance(x.callee, str) and x.callee.startswith('is') and x.callee[2:] in CTYPE_BITS.values(): calls.add(x.callee[2:])
    got = masks | calls
    if got != {want}: ctx.rep.broken('C07.R4: %s tests ctype classes %s, expected {%s}' % (name, sorted(got), want))

def r4(ctx):
    rep = ctx.rep; prog = ctx.flex
    fn = prog.fn('flexscan')
    if fn is None: rep.broken('C07.R4: flexscan (the scanner generated from scan.l) not found')
    sp = lex.parse_spec(ctx.art.source('scan.l'))
    numbered = [r for r in sp.rules if not r.is_eof]       # <<EOF>> rules do not consume a rule number (they become YY_STATE_EOF cases)
    res = ir.Resolver(fn); cfg = prog.cfg(fn, cut=False)
    sw = biggest_switch(fn, least=100)
    if sw is None: rep.broken('C07.R4: action switch of flexscan not found')
    stores = [x for x in fn.ins if x.op == 'store' and res.loc(x.ops[1]) == REJECT and x.ops[0] != ('int', 0)]
    if not stores: rep.broken('C07.R4: flexscan never sets reject')
    for st in stores:
        rule_no = None
        for c, l in sw.cases:
            if cfg.dominates(fn.bmap[l], st.blk): rule_no = c
        if rule_no is None or not (1 <= rule_no <= len(numbered)): rep.broken('C07.R4: store to reject at %s is not inside a rule action' % where(st))
        rule = numbered[rule_no - 1]
        f_, ln = st.loc
        nlines = rule.action.count('\n') + 1
        if f_ != 'scan.l' or not (rule.line <= (ln or 0) <= rule.line + nlines):
            rep.broken('C07.R4: rule numbering mismatch: case %d of flexscan is at %s:%s, rule %d of the scan.l model is at line %d' % (rule_no, f_, ln, rule_no, rule.line))
        R = set(region(cfg, fn.bmap[dict(sw.cases)[rule_no]]))
        guards = [(br, t) for br, t in cfg.control_deps_closure(st.blk) if br.blk in R]
        try:
            pat = lex.parse_pattern(rule.pat, sp)
        except Exception as e:
            rep.broken('C07.R4: cannot parse pattern %s: %s' % (rule.pat, e))
        lang = pat['head']
        names = []; asts = []; calls = []
        for br, t in guards:
            p = _pred_ast(fn, br, res, fn.mod) if br.op == 'br' and br.ops else None
            if p is None:
                rep.broken('C07.R4: the guard at %s of the store to reject is not a recognised predicate on yytext' % where(br))
            name, ast, pol, call = p
            on_true = (t.name == br.targets[0])
            if pol != on_true:
                rep.broken('C07.R4: reject is set when %s is false at %s (complement languages are not modelled)' % (name, where(br)))
            a0 = call.ops[0]
            if not any(d.op == 'load' and res.loc(d.ops[0]) == ('global', 'yytext') for d in flow.value_slice(fn, a0)) and \
               res.loc(flow.strip_casts(fn, a0)) != ('global', 'yytext'):
                rep.broken('C07.R4: predicate %s at %s is not applied to yytext' % (name, where(call)))
            if name in ('all_upper', 'all_lower'): _check_predicate_fn(ctx, name)
            names.append(name); asts.append(ast); calls.append(call)
        wit = intersect_all([lang] + asts) if asts else b''
        ok = wit is not None
        if not ok:
            rep.fail('C07.R4', 'C07.R4:scan.l:%s:%s' % (re.sub(r'[^A-Za-z0-9]+', '-', rule.pat).strip('-'), '+'.join(names)), where(calls[0]),
                     'scan.l rule %s sets reject only if %s, but no string matched by the pattern satisfies that: this spelling is never detected and the scanner is generated without REJECT support' % (
                         rule.pat, ' && '.join(n + '(yytext)' if n.startswith('all_') else n for n in names)),
                     replay_input='%%\nr  { yyreject(); }\n.|\\n ;\n%%  (no %option reject: the generated scanner does not compile, yyreject() expands to reject_used_but_not_detected)')
        if ok:
            rep.ok('C07.R4', 'scan.l rule %d %s sets reject %s; witness %r' % (rule_no, rule.pat, ('if ' + ' && '.join(names)) if names else 'unconditionally', wit.decode('latin1') if names else ''))
    rep.setcount('reject_detection_sites', len(stores))

# =============================================================================== driver

# =============================================================================== R7

def run_str_pred(fn, data, maxsteps=4000):
    """concrete evaluation of a call-free (apart from the <ctype.h> table) predicate over a NUL-terminated string"""
    import c01
    data = bytes(data) + b'\0'
    mem = {}; regs = {}
    for (t, name) in fn.params: regs[name] = ('p', 0)
    def val(v):
        if v[0] == 'int': return v[1]
        if v[0] == 'null': return 0
        if v[0] == 'reg': return regs[v[1]]
        raise KeyError(v)
    blk = fn.entry; prev = None; steps = 0
    while True:
        nxt = None
        for x in blk.ins:
            steps += 1
            if steps > maxsteps: raise RuntimeError('evaluation limit')
            op = x.op
            if op == 'alloca': regs[x.res] = ('slot', x.res)
            elif op == 'store': mem[val(x.ops[1])] = val(x.ops[0])
            elif op == 'load':
                a = val(x.ops[0])
                if a[0] == 'slot': regs[x.res] = mem[a]
                elif a[0] == 'p': regs[x.res] = data[a[1]] if 0 <= a[1] < len(data) else 0
                elif a[0] == 'ctab': regs[x.res] = ('ctabp',)
                elif a[0] == 'cent': regs[x.res] = c01._ctype_word(a[1])
                else: raise RuntimeError('load of %r' % (a,))
            elif op == 'getelementptr':
                b = val(x.ops[0]); k = val(x.ops[-1])
                if isinstance(k, int) and k >= 1 << 63: k -= 1 << 64
                if b[0] == 'p': regs[x.res] = ('p', b[1] + k)
                elif b[0] == 'ctabp': regs[x.res] = ('cent', k)
                else: raise RuntimeError('gep on %r' % (b,))
            elif op in ('zext', 'sext', 'trunc', 'bitcast'):
                v = val(x.ops[0])
                if op == 'sext' and isinstance(v, int) and x.srcty is not None and getattr(x.srcty, 'a', None) == 8 and v >= 128: v -= 256
                if op == 'trunc' and isinstance(v, int) and x.ty is not None and x.ty.k == 'int': v &= (1 << x.ty.a) - 1
                regs[x.res] = v
            elif op in ('and', 'or', 'xor', 'add', 'sub'):
                a, b = val(x.ops[0]), val(x.ops[1])
                regs[x.res] = {'and': a & b, 'or': a | b, 'xor': a ^ b, 'add': a + b, 'sub': a - b}[op]
            elif op == 'icmp':
                a, b = val(x.ops[0]), val(x.ops[1])
                regs[x.res] = int({'eq': a == b, 'ne': a != b, 'slt': a < b, 'sle': a <= b, 'sgt': a > b, 'sge': a >= b, 'ult': a < b, 'ule': a <= b, 'ugt': a > b, 'uge': a >= b}[x.pred])
            elif op in ('call', 'invoke'):
                if x.callee == '__ctype_b_loc': regs[x.res] = ('ctab',)
                elif x.callee in c01.CTYPE_FUNCS:
                    c = val(x.ops[0]); regs[x.res] = int(bool(0 <= c < 128 and lex.POSIX[c01.CTYPE_FUNCS[x.callee]](c)))
                elif x.callee == 'isascii': regs[x.res] = int(0 <= val(x.ops[0]) < 128)
                else: raise RuntimeError('call of %s' % x.callee)
            elif op == 'phi':
                for v, lab in zip(x.ops, x.cases):
                    if prev is not None and lab == prev.name: regs[x.res] = val(v)
            elif op == 'br':
                if not x.ops: nxt = fn.bmap[x.targets[0]]
                else: nxt = fn.bmap[x.targets[0] if (val(x.ops[0]) & 1) else x.targets[1]]
            elif op == 'ret':
                return val(x.ops[0]) if x.ops else None
            else: raise RuntimeError('instruction %s' % op)
        if nxt is None: raise RuntimeError('fell off block %s' % blk.name)
        prev = blk; blk = nxt

CASE_WORDS = [b'REJECT', b'reject', b'Reject', b'REJECt', b'rEJECT', b'R', b'r', b'YYMORE', b'yymore', b'yyMore', b'A1', b'a1', b'\xc9', b'AB\xe9']

def r7_case(ctx, rule='C07.R7'):
    """R7: the case tests behind the REJECT / yymore detection.  scan.l decides that an action uses REJECT when the word is
    all upper case and yyreject()/yymore() when it is all lower case; all_upper() / all_lower() are evaluated on the IR for a
    list of words: all_upper(w) holds iff every byte of w is an ASCII capital, all_lower(w) iff every byte is an ASCII small
    letter.  (A word such as `reject` in `int reject = 1;` must not switch a scanner to REJECT tables: that silently
    disables the unmatched-rule warnings and the -Cf/-CF refusal logic.)"""
    rep = ctx.rep; prog = ctx.flex
    n = 0
    for name, want in (('all_upper', lambda w: all(65 <= c <= 90 for c in w)), ('all_lower', lambda w: all(97 <= c <= 122 for c in w))):
        f = prog.fn(name)
        if f is None: rep.broken('%s() not found in flex' % name)
        bad = None
        for w in CASE_WORDS:
            try: got = run_str_pred(f, w)
            except Exception as e: rep.broken('%s: %s(%r) not evaluable: %s' % (rule, name, w, e))
            if bool(got) != want(w): bad = (w, got); break
        n += 1
        if bad:
            rep.fail(rule, '%s:misc.c:%s:case-test' % (rule, name), fwhere(f), '%s(%r) returns %s: the word is %s, so flex %s' % (
                name, bad[0].decode('latin1'), bad[1], 'not all upper case' if name == 'all_upper' else 'not all lower case',
                'takes an identifier such as `reject` for REJECT (or misses REJECT)' if name == 'all_upper' else 'mis-detects yyreject()/yymore()'),
                replay_input='a { int reject = 1; }')
        else:
            rep.ok(rule, '%s(): %d words classified as documented' % (name, len(CASE_WORDS)))
    return n

# =============================================================================== R8

def r8(ctx):
    """The accepting lists REJECT walks are sized by numas: yy_acclist is declared with numas + 1 entries and every DFA state
    contributes its nacc rules.  Each place in ntod() where snstods() reports a NEW state (the start states and the main
    loop) adds nacc to numas on every path: a store numas = numas + nacc whose only controlling test, below the test of the
    snstods() result, is that result.  (A state whose accepting rules are not counted makes the list shorter than the
    entries gentabs() writes.)"""
    rep = ctx.rep; prog = ctx.flex
    f = prog.fn('ntod')
    if f is None or not f.blocks: rep.broken('C07.R8: ntod not found')
    res = ir.Resolver(f); cfg = prog.cfg(f, cut=False)
    # the end-of-buffer state is created with an empty accepting set (nacc is the constant 0; it gets `++numas`): not an instance
    calls = [c for c in f.ins if c.op == 'call' and c.callee == 'snstods' and len(c.ops) > 3 and c.ops[3][0] != 'int']
    if len(calls) < 2: rep.broken('C07.R8: %d calls of snstods with a computed accepting set in ntod' % len(calls))
    adds = []
    for x in f.ins:
        if x.op != 'store' or res.loc(x.ops[1]) != ('global', 'numas'): continue
        d = f.def_of(x.ops[0])
        if d is None or d.op != 'add': continue
        ls = [res.loc(e.ops[0]) for o in d.ops for e in flow.value_slice(f, o) if e.op == 'load']
        if ('global', 'numas') in ls and any(l[0] == 'local' and l[1].startswith('nacc') for l in ls): adds.append(x)
    n = 0
    for c in calls:
        n += 1
        brs = [b.ins[-1] for b in f.blocks if b.ins and b.ins[-1].op == 'br' and b.ins[-1].ops and c in flow.value_slice(f, b.ins[-1].ops[0])]
        key = 'C07.R8:dfa.c:ntod:new-state-not-counted-in-numas#%d' % n
        if len(brs) != 1: rep.broken('C07.R8: the result of snstods@%s is tested by %d branches' % (c.line, len(brs)))
        br = brs[0]
        good = [x for x in adds if [b for b, t in cfg.control_deps(x.blk)] == [br]]
        if good:
            rep.ok('C07.R8', 'ntod: new state from snstods@%s: numas += nacc@%s on every path' % (c.line, good[0].line))
        else:
            cond = [x for x in adds if any(b is br for b, t in cfg.control_deps_closure(x.blk))]
            rep.fail('C07.R8', key, where(cond[0] if cond else c), 'ntod(): a new DFA state created by snstods() at line %s %s: yy_acclist is declared with numas + 1 entries, so the accepting lists of the last states lie outside the table'
                     % (c.line, 'adds its nacc accepting rules to numas only under a further condition' if cond else 'never adds its nacc accepting rules to numas'),
                     replay_input='%option reject\n%%\n[a-c]*  ECHO; REJECT;\n[a-c]+d ECHO;\n.|\\n ;   (a start state that accepts: yy_acclist[] gets fewer entries than initialisers)')
    return n

def run(ctx):
    rep = ctx.rep
    r1(ctx); r2(ctx); r4(ctx); r3(ctx); r6(ctx); r7_case(ctx); r8(ctx)
    # R5: the accepting lists REJECT walks (yy_acclist of the REJECT builds of the language probes) hold, for every reachable
    # state, exactly the rules that match there, once each, in rule order - read from the emitted tables, over all inputs
    import tbl
    tbl.rule_language(ctx, 'C07.R5', what='REJECT accepting lists (every matching rule once, in rule order)', rej_only=True)
    rep.floor('C07.R1', 2, 'reject with fulltbl, reject with fullspd')
    rep.floor('C07.R2', 2, 'copy in snstods + intcmp')
    rep.floor('C07.R3', 15, 'one per REJECT variant compiled to IR (19 today, all five back ends)')
    rep.floor('C07.R6', 1, 'state-stack pushes in yylex, yy_get_previous_state, yy_try_NUL_trans of every REJECT variant')
    rep.floor('C07.R4', 2, 'REJECT and yyreject() detection rules of scan.l')
    rep.floor('C07.R7', 2, 'all_upper, all_lower')
    rep.floor('C07.R8', 2, 'the two snstods call sites of ntod')
    rep.floor('C07.R5', 10, 'REJECT builds of the language probes')
    rep.undecided += ['the order in which a generated scanner visits (rule, length) alternatives at run time, yytext/yyleng per visit',
                      'find_rule / yy_state_buf walk in the skeletons (the pops and the yy_lp cursor; the push shape is R6)',
                      'REJECT inside %{ %} blocks or reached through user macros (detection is lexical)']
    rep.assumptions += ['clang -O0 IR of flex / of the instantiated skeletons is a faithful rendering of the sources',
                        'indirect calls in readin() are treated as possible writers of reject/ctrl (none today)',
                        'the flex-language model (lib/lex.py) parses the two detection patterns as flex does (caseless)']
    return rep.finish('other',
        'Necessary conditions of REJECT on the generator and skeleton side: path-sensitive proof on the IR of readin() that no return is reachable once reject and '
        'fulltbl/fullspd hold at their final values; dominance of the qsort over the copy of the accepting set in snstods() with the comparator evaluated; '
        'post-dominance of the fatal hook on the no-room edge of yy_get_next_buffer in every REJECT variant of every back end; emptiness test '
        'L(pattern) & L(predicate) for the scan.l rules that detect REJECT/yyreject() in actions.')
